"""X02 binder (extension, DESIGN 7): the rest of the arrays API -- offset / scale / normalize / center, to_db, resize,
adjust_dim_range, set_dim_attrs / get_dim_range / get_dim_width / get_dim_step / estimate_dim_step,
create_time_dim_from_array / create_frequency_dim_from_array.

Encoder only -- the verdict is T_ArrayOps'.  The binder builds the arrays a case describes, calls the real API and ships
values (limb numbers / IEEE bit patterns), attributes (as sorted [key, text] pairs), dims and shapes, before and after.
It computes no expected value, attribute or outcome.
"""
from __future__ import annotations
import math, warnings
from fractions import Fraction
import numpy as np
import xarray as xr
from soundevent.arrays import operations as ops, dimensions as dm
from vt.enc import limbs
from checks.c16 import bits
from checks.c17 import _d

PROPERTY = "X02"
TRACE = "T_ArrayOps"
ENUM = {
    "quick":    [dict(module="MC_ArrayOps", cfg="MC_ArrayOps_quick.cfg", workers=8)],
    "thorough": [dict(module="MC_ArrayOps", cfg="MC_ArrayOps_thorough.cfg", workers=16),
                 dict(module="MC_ArrayOps", cfg="MC_ArrayOps_cov.cfg", workers=4, coverage=True, expect_cases=False)],
}
POOL = 12
CHUNK = 2500
RULE = ("every call of the TLA+ enumeration: operation sequences of offset/scale/normalize/center on all arrays of <= 3-4 samples over five "
        "values; to_db over four arrays x ref x amin x min_db x max_db x power x units; resize (4 steps, 3 starts, sizes, 1-D/2-D); "
        "adjust_dim_range (start / stop / None on quarter steps inside, outside and straddling the axis); the dimension helpers with step "
        "attribute present / absent / stale, regular / irregular axes, estimate and tolerance switches; non-trivial = every case")
TRUSTED_BASE = ["checks/x02.py (+ checks/c16.py:bits, checks/c17.py:_d): builds arrays with numpy, encodes doubles and attributes; no expected values"]
ASSUMPTIONS = ["values and parameters of the attribute algebra are dyadic: results must be exact whenever every intermediate is representable "
               "(normalize: range a power of two; center: dyadic mean), else within 2^-28/q of the rational result",
               "to_db is judged on numbers m*10^e, m in {1,2,5}: whole-decibel results to 2^-28 dB, others inside the micro-dB interval "
               "given by 3.010299 < 10 log10 2 < 3.010300 (+- 1e-6 dB)",
               "adjust_dim_range is judged on dyadic steps and axes that start on a multiple of the step (the code snaps to multiples of the "
               "step); a stop exactly on a bin edge may or may not include that bin (docstring silent)",
               "resize: values are judged only inside the old coordinate range (linear data); a step attribute is judged only if present",
               "create_*_dim_from_array with both step and samplerate, and dtype=, are not exercised (undocumented parameters)"]
EXTENSION = {
    "title": "X02 - the rest of the arrays API (attribute algebra, to_db, resize, adjust_dim_range, dimension helpers)",
    "text": ("ArrayOps.tla (extends CropExtend/RangeDim) states on exact rationals what the docstrings of soundevent.arrays promise beyond "
             "C16/C17: offset/scale/normalize/center as operators on (values, add_offset, scale_factor) with the laws TLC checks on the "
             "model (the recorded attributes unpack a single operation, offset-then-scale and normalize exactly; a second offset "
             "replaces the first, scale-then-offset does not unpack; normalize/center idempotent; order kept); to_db as a case analysis "
             "on numbers m*10^e in integer micro-decibel intervals (floor at amin^(1/power), reference, clamp min_db then max_db, "
             "monotone, errors); resize (size, start kept, step*size invariant); adjust_dim_range as the bins covering [start, stop], "
             "with the implementation composed from the C17 crop/extend operators as a two-step machine checked against it; the "
             "dimension helpers (which step wins, when estimation raises). MC_ArrayOps enumerates every call; each runs on the real "
             "code and TLC validates the recorded values, attributes, dims and the untouched input clause by clause."),
}

NAN = float("nan")


def pairs(d) -> list:
    """Attributes as sorted [key, text] pairs (text = repr of the python value for numbers, the string itself for strings)."""
    out = []
    for k in sorted(d):
        v = d[k]
        out.append([str(k), v if isinstance(v, str) else repr(float(v)) if isinstance(v, (int, float, np.integer, np.floating)) else repr(v)])
    return out


def olimbs(x) -> list:
    return [] if x is None else [limbs(float(x))]


def snapshot(arr) -> dict:
    return {"data": [bits(x) for x in np.asarray(arr.data, dtype=float).ravel()], "attrs": pairs(arr.attrs)}


def coords_of(arr) -> list:
    return [[str(d), [bits(x) for x in np.asarray(arr.coords[d].data, dtype=float)], pairs(arr.coords[d].attrs)] for d in arr.dims if d in arr.coords]


def axis(a4, s, n, ir=0, attrs=None, name="x"):
    a, fs = Fraction(a4, 4), Fraction(s[0], s[1])
    lat = (lambda k: k) if ir == 0 else (lambda k: k * (k + 1) // 2)
    data = np.array([float(a + lat(i) * fs) for i in range(n)], dtype=float)
    return xr.Variable(name, data, attrs=dict(attrs or {}))


def untouched(before, arr):
    after = snapshot(arr)
    return {"in_before": before["data"], "in_after": after["data"], "in_attrs_before": before["attrs"], "in_attrs_after": after["attrs"]}


# ----------------------------------------------------------------------------- (a) attribute algebra
def _alg(case):
    xs = [t / 4 for t in case["xs"]]
    n = len(xs)
    arr = xr.DataArray(np.array(xs, dtype=float), dims=["time"], coords={"time": axis(0, [1, 4], n, attrs={"step": 0.25, "units": "s"}, name="time")},
                       attrs={"units": "V", "note": "keep"})
    before = snapshot(arr)
    cin = coords_of(arr)
    out = arr
    raised = ""
    try:
        for o in case["ops"]:
            v = float(Fraction(o["v"][0], o["v"][1]))
            if o["op"] == "offset":
                out = ops.offset(out, v)
            elif o["op"] == "scale":
                out = ops.scale(out, v)
            elif o["op"] == "normalize":
                out = ops.normalize(out)
            elif o["op"] == "center":
                out = ops.center(out)
            else:
                raise KeyError(o["op"])
    except (ValueError, TypeError, ZeroDivisionError, ArithmeticError) as ex:
        raised = type(ex).__name__
    other = lambda a: [p for p in pairs(a.attrs) if p[0] not in ("add_offset", "scale_factor")]
    return {"raised": raised, "vals": [limbs(x) for x in np.asarray(out.data, dtype=float).ravel()],
            "off": olimbs(out.attrs.get("add_offset")), "sf": olimbs(out.attrs.get("scale_factor")),
            "dims_in": list(arr.dims), "dims_out": list(out.dims), "coords_in": cin, "coords_out": coords_of(out),
            "other_in": [p for p in before["attrs"]], "other_out": other(out), **untouched(before, arr)}


# ----------------------------------------------------------------------------- (b) to_db
def _num(x) -> float:
    if x["m"] == 0:
        return 0.0
    return float(Fraction(x["m"]) * Fraction(10) ** x["e"])


def _db(case):
    data = np.array([_num(x) for x in case["xs"]], dtype=float)
    attrs = {"units": case["units"]} if case["units"] else {}
    arr = xr.DataArray(data, dims=["frequency"], coords={"frequency": axis(0, [250, 1], len(data), name="frequency")}, attrs=dict(attrs, note="keep"))
    before = snapshot(arr)
    kw = {"power": case["power"]}
    if case["refmax"]:
        kw["ref"] = np.max
    elif not case["refdef"]:
        kw["ref"] = _num(case["ref"])
    if case["aminneg"]:
        kw["amin"] = -1.0
    elif not case["amindef"]:
        kw["amin"] = float(Fraction(10) ** case["ea"])
    if not case["mindef"]:
        kw["min_db"] = float(case["mindb"][0]) if case["mindb"] else None
    if case["maxdb"]:
        kw["max_db"] = float(case["maxdb"][0])
    base = {"dims_in": list(arr.dims), "coords_in": coords_of(arr),
            "mindb_b": bits(case["mindb"][0] if case["mindb"] else 0.0), "maxdb_b": bits(case["maxdb"][0] if case["maxdb"] else 0.0)}
    try:
        out = ops.to_db(arr, **kw)
    except (ValueError, TypeError, ArithmeticError) as ex:
        return {"raised": type(ex).__name__, "vals": [], "valb": [], "units": "", "dims_out": [], "coords_out": [], **base, **untouched(before, arr)}
    v = np.asarray(out.data, dtype=float).ravel()
    return {"raised": "", "vals": [limbs(x) for x in v], "valb": [bits(x) for x in v], "units": str(out.attrs.get("units", "")),
            "dims_out": list(out.dims), "coords_out": coords_of(out), **base, **untouched(before, arr)}


# ----------------------------------------------------------------------------- (c) resize
def _resize(case):
    shape = case["shape"]
    n = shape[0]
    x = axis(case["a4"], case["s"], n, attrs={"step": float(Fraction(*case["s"]))})
    data = np.arange(1, n + 1, dtype=float)
    if len(shape) == 2:
        arr = xr.DataArray(np.repeat(data[:, None], shape[1], axis=1), dims=["x", "y"],
                           coords={"x": x, "y": axis(0, [1, 1], shape[1], attrs={"step": 1.0}, name="y")}, attrs={"note": "keep"})
    else:
        arr = xr.DataArray(data, dims=["x"], coords={"x": x}, attrs={"note": "keep"})
    before = snapshot(arr)
    kw = {"w": 2} if case["baddim"] else {d: case["sizes"][j][0] for j, d in enumerate(arr.dims) if case["sizes"][j]}
    base = {"dims_in": list(arr.dims)}
    try:
        out = ops.resize(arr, **kw)
    except (ValueError, KeyError, TypeError) as ex:
        return {"raised": type(ex).__name__, "shape": [], "dims_out": [], "lout": [], "stepattr": [], "vals": [], **base, **untouched(before, arr)}
    prof = out.isel(y=0) if "y" in out.dims else out
    return {"raised": "", "shape": [int(v) for v in out.shape], "dims_out": list(out.dims),
            "lout": [limbs(v) for v in np.asarray(out.coords["x"].data, dtype=float)], "stepattr": olimbs(out.coords["x"].attrs.get("step")),
            "vals": [limbs(v) for v in np.asarray(prof.data, dtype=float)], **base, **untouched(before, arr)}


# ----------------------------------------------------------------------------- (d) adjust_dim_range
def _adjust(case):
    a, fs = Fraction(case["a4"], 4), Fraction(*case["s"])
    n = case["n"]
    arr = xr.DataArray(np.arange(1, n + 1, dtype=float), dims=["x"], coords={"x": axis(case["a4"], case["s"], n, attrs={"step": float(fs)})})
    before = snapshot(arr)
    cin = [bits(v) for v in arr.coords["x"].data]
    kw = {}
    if case["start"]:
        kw["start"] = float(a + Fraction(case["start"][0], 4) * fs)
    if case["stop"]:
        kw["stop"] = float(a + Fraction(case["stop"][0], 4) * fs)
    if case["fill"] != 0:
        kw["fill_value"] = case["fill"]
    try:
        out = ops.adjust_dim_range(arr, "x", **kw)
    except (ValueError, KeyError, IndexError) as ex:
        return {"raised": type(ex).__name__, "cin": cin, "cout": [], "lout": [], "data": [], **untouched(before, arr)}
    co = np.asarray(out.coords["x"].data, dtype=float)
    return {"raised": "", "cin": cin, "cout": [bits(v) for v in co], "lout": [limbs(v) for v in co],
            "data": [_d(v) for v in np.asarray(out.data)], **untouched(before, arr)}


# ----------------------------------------------------------------------------- (e) dimension helpers
def _dims(case):
    fn, s, n = case["fn"], case["s"], case["n"]
    fs = Fraction(*s)
    try:
        if fn in ("get_step", "est_step"):
            attrs = {"step": float(fs * Fraction(*case["attr"][0]))} if case["attr"] else {}
            x = axis(case["a4"], s, n, case["ir"], attrs)
            arr = xr.DataArray(np.zeros(n), dims=["x"], coords={"x": x})
            if fn == "get_step":
                v = dm.get_dim_step(arr, "x", check_tolerance=case["chk"], estimate_step=case["est"])
            else:
                v = dm.estimate_dim_step(np.asarray(x.data), check_tolerance=case["chk"])
            return {"raised": "", "val": olimbs(v)}
        if fn == "range_width":
            x = axis(case["a4"], s, n, case["ir"], {"step": float(fs), "start": -1000.0, "stop": 1000.0})
            arr = xr.DataArray(np.zeros(n), dims=["x"], coords={"x": x})
            lo, hi = dm.get_dim_range(arr, "x")
            return {"raised": "", "lo": bits(lo), "hi": bits(hi), "val": olimbs(dm.get_dim_width(arr, "x")), "cb": [bits(v) for v in arr.coords["x"].data]}
        if fn == "set_attrs":
            x = axis(case["a4"], s, n, 0, {"step": float(fs), "units": "s"})
            arr = xr.DataArray(np.arange(1.0, n + 1), dims=["x"], coords={"x": x}, attrs={"note": "keep"})
            given = {"start": float(x.data[0]), "stop": float(x.data[-1]) + float(fs)} if case["which"] == "new" else {"units": "ms", "step": 2 * float(fs)}
            b_attrs, b_data, b_c = pairs(arr.coords["x"].attrs), [bits(v) for v in arr.data], [bits(v) for v in arr.coords["x"].data]
            out = dm.set_dim_attrs(arr, "x", **given)
            return {"raised": "", "same": out is arr, "attrs_before": b_attrs, "given": pairs(given), "attrs_after": pairs(out.coords["x"].attrs),
                    "data_before": b_data, "data_after": [bits(v) for v in out.data], "cb": b_c, "cb_after": [bits(v) for v in out.coords["x"].data]}
        if fn in ("time_from_array", "freq_from_array"):
            coods = np.asarray(axis(case["a4"], s, n, case["ir"]).data)
            kw = {"custom": "kept"}
            if case["name"]:
                kw["name"] = case["name"]
            if case["how"] == "given":
                kw["step"] = float(fs * Fraction(3, 2))
            elif case["how"] == "sr":
                kw["samplerate"] = float(1 / fs)
            elif case["how"] == "est":
                kw["estimate_step"] = True
            f = dm.create_time_dim_from_array if fn == "time_from_array" else dm.create_frequency_dim_from_array
            v = f(coods.copy(), **kw)
            return {"raised": "", "named": [p for p in pairs(v.attrs) if p[0] in ("long_name", "standard_name", "units")],
                    "dimname": str(v.dims[0]), "stepattr": olimbs(v.attrs.get("step")), "extra": str(v.attrs.get("custom", "")),
                    "cb": [bits(t) for t in coods], "cb_after": [bits(t) for t in np.asarray(v.data, dtype=float)]}
    except (ValueError, KeyError) as ex:
        return {"raised": type(ex).__name__, "val": [], "lo": bits(0.0), "hi": bits(0.0), "cb": [], "same": False, "attrs_before": [], "given": [],
                "attrs_after": [], "data_before": [], "data_after": [], "cb_after": [], "named": [], "dimname": "", "stepattr": [], "extra": ""}
    raise ValueError(fn)


# ----------------------------------------------------------------------------- width calls: the fill value
def _wfill(case):
    n, w = case["n"], case["w"]
    fs = Fraction(*case["s"])
    arr = xr.DataArray(np.arange(1, n + 1, dtype=float), dims=["x"], coords={"x": axis(case["a4"], case["s"], n, attrs={"step": float(fs)})})
    before = snapshot(arr)
    fill = float(Fraction(*case["fill"]))
    kw = {"position": case["pos"]}
    if fill != 0:
        kw["fill_value"] = fill
    try:
        out = (ops.adjust_dim_width if case["fn"] == "adjust" else ops.extend_dim_width)(arr, "x", w, **kw)
    except (ValueError, KeyError, IndexError) as ex:
        return {"raised": type(ex).__name__, "vals": [], **untouched(before, arr)}
    return {"raised": "", "vals": [limbs(v) for v in np.asarray(out.data, dtype=float)], **untouched(before, arr)}


def execute(case):
    with warnings.catch_warnings():
        warnings.simplefilter("ignore")
        k = case["kind"]
        return {"alg": _alg, "db": _db, "resize": _resize, "adjust": _adjust, "dims": _dims, "wfill": _wfill}[k](case)


# ----------------------------------------------------------------------------- larger universe (seeded)
def random_cases(rng, tier):
    k = 1 if tier == "quick" else 5
    opv = lambda: rng.choice([[1, 4], [-1, 2], [2, 1], [3, 4], [-5, 1], [7, 8]])
    scv = lambda: rng.choice([[2, 1], [1, 2], [-2, 1], [4, 1], [1, 8], [-1, 4]])
    for _ in range(150 * k):
        xs = [rng.randrange(-40, 41) for _ in range(rng.randrange(1, 7))]
        ops_ = []
        for _ in range(rng.randrange(1, 3)):
            o = rng.choice(["offset", "scale", "normalize", "center"])
            ops_.append({"op": o, "v": opv() if o == "offset" else scv() if o == "scale" else [0, 1]})
        yield {"kind": "alg", "xs": xs, "ops": ops_}
    for _ in range(100 * k):
        s = rng.choice([[1, 1], [1, 2], [1, 4], [2, 1], [1, 8]])
        n = rng.randrange(1, 40)
        j0 = rng.randrange(-20, 21)
        a4 = Fraction(4 * j0 * s[0], s[1])
        if a4.denominator != 1:
            continue
        start = [rng.randrange(-40, 4 * n)] if rng.random() < 0.75 else []
        stop = [rng.randrange(0, 4 * n + 40)] if rng.random() < 0.75 or not start else []
        yield {"kind": "adjust", "s": s, "a4": int(a4), "n": n, "start": start, "stop": stop, "fill": rng.choice([0, -7])}
    for _ in range(80 * k):
        n, kk = rng.randrange(1, 30), rng.randrange(1, 40)
        yield {"kind": "resize", "s": rng.choice([[1, 1], [1, 4], [1, 10], [1, 3], [1, 100]]), "a4": rng.randrange(-20, 21), "baddim": False,
               "shape": [n], "sizes": [[kk]]}


def nontrivial(o):
    return True
