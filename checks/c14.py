"""C14 binder: segment_clip.  Encoder only -- the verdict is T_Segment's."""
import uuid
from soundevent import data
from soundevent.operations import segment_clip
from vt.enc import ticks, limbs

PROPERTY = "C14"
TRACE = "T_Segment"
ENUM = {
    "quick":    [dict(module="MC_Segment", cfg="MC_Segment_quick.cfg", workers=8)],
    "thorough": [dict(module="MC_Segment", cfg="MC_Segment_thorough.cfg", workers=16, coverage=True,
                     may_be_unused=["BrkS"])],  # with the ceil bound the start>=end break is unreachable in exact arithmetic (float guard only)
}
POOL = 12
PROOFS = ["proofs/P_Segment.tla"]     # thorough tier: the laws for all integers, discharged by tlapm
UNITS = [1.0, 0.5, 0.25, 0.125, 2.0 ** -12]   # the last one (0.24 ms): absolute tolerances in the fit test would show
RULE = ("every (clip start, length, duration, hop|default, include_incomplete) of the TLA+ enumeration, run at four exact "
        "units, twice; non-trivial = valid arguments and at least one window is required")
TRUSTED_BASE = ["checks/c14.py (build clip, list(segment_clip), read start/end back as exact ticks)"]
ASSUMPTIONS = ["dyadic units: start + i*hop and the comparisons of the implementation are exact, so window lists must match exactly",
               "decimal units are out of scope for exact verdicts (one-ulp effects are not property violations)"]

_REC = data.Recording(path="a.wav", duration=1000.0, channels=1, samplerate=8000)
# segment_clip is stated on the clip's times only: the recording's sampling rate (a coarse one: a sample period of 0.5 s is
# longer than most windows here) and its time expansion must not change any window
_RECS_BY_UNIT = {}
def _rec_for(u):
    if u not in _RECS_BY_UNIT:
        k = len(_RECS_BY_UNIT) % 3
        _RECS_BY_UNIT[u] = [_REC,
                            data.Recording(path="a.wav", duration=1000.0, channels=1, samplerate=2),
                            data.Recording(path="a.wav", duration=1000.0, channels=1, samplerate=8000, time_expansion=10.0)][k]
    return _RECS_BY_UNIT[u]

_REC2 = data.Recording(path="b.wav", duration=2000.0, channels=2, samplerate=44100)

def _run(case, u):
    clip = data.Clip(recording=_rec_for(u), start_time=case["s"] * u, end_time=case["e"] * u,
                     uuid=uuid.UUID(int=1000 + (case["s"] + 1_000_000) * 1024 + case["e"]))
    # the same bounds on ANOTHER recording under another parent id, segmented right afterwards in the same process:
    # a result must depend on its own arguments only
    other = data.Clip(recording=_REC2, start_time=case["s"] * u, end_time=case["e"] * u,
                      uuid=uuid.UUID(int=5_000_000 + (case["s"] + 1_000_000) * 1024 + case["e"]))
    kw = {}
    if case["h"]:
        kw["hop"] = case["h"][0] * u
    if case["inc"]:
        kw["include_incomplete"] = True
    try:
        a = list(segment_clip(clip, case["d"] * u, **kw))
        b = list(segment_clip(clip, case["d"] * u, **kw))
        c = list(segment_clip(other, case["d"] * u, **kw))
    except Exception as ex:
        return {"raised": type(ex).__name__, "w": [], "w2": [], "idmap": [], "w3": [], "w4": [], "samerec": True, "ids_distinct": True, "ids_repeat": True}
    # provenance: a clip DERIVED from one that was already used (model_copy(update=...) keeps the instance __dict__, so
    # anything memoised on the base clip would travel along), and the same call spelled with positional arguments
    w3, w4 = [], []
    try:
        # the base clip is SHORTER than the case's clip (half its length): a stale duration would end the loop early
        base = data.Clip(recording=_rec_for(u), start_time=case["s"] * u, end_time=(case["s"] + (case["e"] - case["s"]) // 2) * u,
                         uuid=uuid.UUID(int=7_000_000 + (case["s"] + 1_000_000) * 1024 + case["e"]))
        _ = base.duration
        list(segment_clip(base, max(case["d"], 1) * u))
        derived = base.model_copy(update={"end_time": case["e"] * u})
        w3 = [[ticks(x.start_time, u), ticks(x.end_time, u)] for x in segment_clip(derived, case["d"] * u, **kw)]
        if case["h"]:
            w4 = [[ticks(x.start_time, u), ticks(x.end_time, u)]
                  for x in segment_clip(clip, case["d"] * u, case["h"][0] * u, bool(case["inc"]))]
        else:
            w4 = [[ticks(x.start_time, u), ticks(x.end_time, u)] for x in segment_clip(clip, case["d"] * u, None, bool(case["inc"]))]
    except Exception as ex:
        w3 = w4 = [[-1, -1]]
    # a second call on the SAME parent with another duration: windows with the same bounds must get the same identifier
    try:
        d2 = list(segment_clip(clip, (case["d"] + 1) * u, **kw))
    except Exception:
        d2 = []
    ids = {}
    idmap = [[ticks(x.start_time, u), ticks(x.end_time, u), ids.setdefault(x.uuid, len(ids) + 1)] for x in a + d2]
    return {"raised": "",
            "w": [[ticks(x.start_time, u), ticks(x.end_time, u)] for x in a],
            "w2": [[ticks(x.start_time, u), ticks(x.end_time, u)] for x in c],
            "idmap": idmap, "w3": w3, "w4": w4,
            "samerec": all(x.recording == clip.recording for x in a) and all(x.recording == other.recording for x in c),
            "ids_distinct": len({x.uuid for x in a}) == len(a) and len({x.uuid for x in c}) == len(c),
            "ids_repeat": [x.uuid for x in a] == [x.uuid for x in b]}


STRESS_UNITS = [0.1, 0.3, 1.0 / 3.0]      # not representable: only clauses that are robust against one-ulp effects apply

def _stress(case, u):
    """decimal units: bounds are shipped as limb numbers; only order facts are judged (InsideNonEmpty)"""
    clip = data.Clip(recording=_REC, start_time=case["s"] * u, end_time=case["e"] * u,
                     uuid=uuid.UUID(int=9_000_000 + (case["s"] + 1_000_000) * 1024 + case["e"]))
    kw = {}
    if case["h"]:
        kw["hop"] = case["h"][0] * u
    if case["inc"]:
        kw["include_incomplete"] = True
    try:
        a = list(segment_clip(clip, case["d"] * u, **kw))
    except Exception as ex:
        return {"raised": type(ex).__name__, "cs": limbs(clip.start_time), "ce": limbs(clip.end_time), "hd": limbs(0.0), "segs": [],
                "samerec": True, "ids_distinct": True}
    hop = kw.get("hop", case["d"] * u)
    return {"raised": "", "cs": limbs(clip.start_time), "ce": limbs(clip.end_time), "hd": limbs(hop),
            "segs": [[limbs(x.start_time), limbs(x.end_time)] for x in a],
            "samerec": all(x.recording == clip.recording for x in a),
            "ids_distinct": len({x.uuid for x in a}) == len(a)}

def execute(case):
    return {"runs": [_run(case, u) for u in UNITS], "stress": [_stress(case, u) for u in STRESS_UNITS]}


def _ids(case):
    """the identifiers of the segments of the main call, per unit, as text (compared across interpreter processes)"""
    out = []
    for u in UNITS:
        clip = data.Clip(recording=_REC, start_time=case["s"] * u, end_time=case["e"] * u,
                         uuid=uuid.UUID(int=1000 + (case["s"] + 1_000_000) * 1024 + case["e"]))
        kw = {}
        if case["h"]:
            kw["hop"] = case["h"][0] * u
        if case["inc"]:
            kw["include_incomplete"] = True
        try:
            out.append([str(x.uuid) for x in segment_clip(clip, case["d"] * u, **kw)])
        except Exception as ex:
            out.append(["raise:" + type(ex).__name__])
    return out


XPROC_CASES = [{"s": 0, "e": 10, "d": 3, "h": [2], "inc": True}, {"s": 0, "e": 10, "d": 2, "h": [], "inc": False},
               {"s": 5, "e": 6, "d": 1, "h": [4], "inc": True}, {"s": 3, "e": 40, "d": 7, "h": [5], "inc": True},
               {"s": 100000, "e": 100020, "d": 3, "h": [1], "inc": False}, {"s": 1, "e": 2, "d": 5, "h": [], "inc": True}]


def extra_observations(work, tier, seed):
    """'Identifiers are a deterministic function of the parent identifier and the bounds' also ACROSS interpreter
    processes: the same calls are made in two fresh interpreters with other hash seeds; ids_repeat of these observations
    says that all three processes produced the same identifiers (anything derived from hash() of a str would differ)."""
    import json, os, random, subprocess, sys
    from pathlib import Path
    from vt.engine import Machinery
    rng = random.Random(seed)
    cases = list(XPROC_CASES) + [{"s": rng.randrange(0, 50), "e": 0, "d": rng.randrange(1, 9), "h": rng.choice([[], [rng.randrange(1, 9)]]),
                                  "inc": rng.random() < 0.5} for _ in range(10 if tier == "quick" else 60)]
    for c in cases:
        if not c["e"]:
            c["e"] = c["s"] + rng.randrange(1, 60)
    f = Path(work) / "xproc_cases.json"
    f.write_text(json.dumps(cases))
    here = _ids_all(cases)
    others = []
    for hs in ("101", "202"):
        env = dict(os.environ, PYTHONHASHSEED=hs)
        env["PYTHONPATH"] = os.pathsep.join(x for x in [os.environ.get("VERIF_SRC", ""), str(Path(__file__).resolve().parent.parent),
                                                        os.environ.get("PYTHONPATH", "")] if x)
        p = subprocess.run([sys.executable, "-c",
                            "import json,sys; from checks import c14; print(json.dumps(c14._ids_all(json.load(open(sys.argv[1])))))", str(f)],
                           capture_output=True, text=True, env=env, cwd=str(Path(__file__).resolve().parent.parent), timeout=600)
        if p.returncode != 0:
            raise Machinery("child interpreter for the cross-process identifiers failed: " + p.stderr[-400:])
        others.append(json.loads(p.stdout.strip().splitlines()[-1]))
    for k, c in enumerate(cases):
        try:
            out = execute(c)
        except Exception as ex:      # e.g. a window off the lattice: an observation (NoCrash decides), as in the worker processes
            yield {"src": "xproc", "in": c, "out": {"crashed": f"{type(ex).__name__}: {str(ex)[:200]}"}}
            continue
        same = here[k] == others[0][k] == others[1][k]
        for r in out["runs"]:
            r["ids_repeat"] = bool(r["ids_repeat"] and same)
        yield {"src": "xproc", "in": c, "out": out}


def _ids_all(cases):
    return [_ids(c) for c in cases]

def random_cases(rng, tier):
    n = 1500 if tier == "quick" else 15000
    for k in range(n):
        # a third of the clips lie late in a long recording (start up to ~10 h in 1/8 s ticks: 7-8 significant digits),
        # where identifiers built from rounded bounds would collide
        s = rng.randrange(0, 50) if k % 3 else rng.randrange(10_000, 300_000)
        ln = rng.randrange(0, 400) if k % 3 else rng.randrange(1, 40)
        d = rng.randrange(1, 60) if k % 3 else rng.randrange(1, 6)
        h = rng.choice([[], [d], [rng.randrange(1, 80)], [max(1, ln // rng.randrange(1, 9))]]) if k % 3 else rng.choice([[1], [2], [d]])
        if k % 7 == 3:
            s = -rng.randrange(1, 60)        # a clip that starts before the recording (negative start: legal, padded clips)
        yield {"s": s, "e": s + ln, "d": d, "h": h, "inc": rng.random() < 0.5}

def nontrivial(o):
    c = o["in"]
    h = c["h"][0] if c["h"] else c["d"]
    return c["d"] > 0 and h > 0 and c["e"] > c["s"]

MANIFEST = {
    "text": ("MC_Segment.tla is the loop of segment_clip as a state machine (iteration, two breaks, exhaustion, clamp) and "
             "TLC proves it refines the declarative window list (Segment!ReqWindows) for every clip/duration/hop of the "
             "bounded lattice, with coverage, prefix and termination laws; every configuration is then run on the real "
             "generator at four dyadic units and TLC validates the recorded windows, ids and errors."),
    "note": "trusted: TLC, binder checks/c14.py, exact float arithmetic on dyadic units; bounded lattice + random larger lattice",
    "design_ref": "DESIGN.md section 4 C14",
}
