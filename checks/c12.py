"""C12 binder: overlap predicates.  Encoder only -- the verdict is T_Overlap's."""
from soundevent import data
from soundevent.geometry import operations as geometry
from vt.geom import build, outcome, TIME_UNITS, FREQ_UNIT

PROPERTY = "C12"
TRACE = "T_Overlap"
ENUM = {
    "quick":    [dict(module="MC_Overlap", cfg="MC_Overlap_quick.cfg", workers=8)],
    "thorough": [dict(module="MC_Overlap", cfg="MC_Overlap_thorough.cfg", workers=16, coverage=True)],
}
POOL = 12
PROOFS = ["proofs/P_Overlap.tla"]     # thorough tier: the laws for all integers, discharged by tlapm
RULE = ("every call of the TLA+ enumeration (interval pairs on 0..N x threshold settings incl. invalid ones; catalogue "
        "geometry pairs x axis x thresholds; geometry x clip x minimum) executed at three exact time units; "
        "non-trivial = the two intervals/extent pairs are not both degenerate and the call is not an argument error")
TRUSTED_BASE = ["checks/c12.py + vt/geom.py (build objects on dyadic units, encode bool/exception as string)"]
ASSUMPTIONS = ["dyadic units make every float operation of the implementation exact, so lattice verdicts are exact",
               "intervals are given with start <= stop"]

_RECS = {}
def _recording(te=1.0):
    """the clip's recording; is_in_clip is stated on clip and geometry times only, so a time-expanded recording (te = 10,
    0.5) must not change any answer"""
    if te not in _RECS:
        _RECS[te] = data.Recording(path="a.wav", duration=100000.0, channels=1, samplerate=8000, time_expansion=te)
    return _RECS[te]

_TES = [1.0, 10.0, 0.5]

def _thr(case, unit):
    kw = {}
    if case["abs"]:
        kw["min_absolute_overlap"] = case["abs"][0] * unit
    if case["rel"]:
        p, q = case["rel"][0]
        kw["min_relative_overlap"] = p / q
    return kw

def _geom(g, tu, prov):
    """the geometry of the case, fresh or derived by model_copy from a queried geometry of the same kind"""
    real = build(g, tu)
    if prov != "derived":
        return real
    from vt.geom import FREQ_UNIT as _fu
    donor = build(g, tu * 2.0 + 0.25) if g["type"] in ("TimeStamp",) else build(g, tu * 2.0)
    geometry.compute_bounds(donor)                      # the donor is used once ...
    try:
        geometry.have_temporal_overlap(donor, donor)
    except Exception:
        pass
    return donor.model_copy(update={"coordinates": real.coordinates})   # ... then the case's geometry is derived from it


def execute(case):
    k = case["kind"]
    r, rs = [], []
    for tu in TIME_UNITS:
        if k == "iv":
            a = (case["a"][0] * tu, case["a"][1] * tu)
            b = (case["b"][0] * tu, case["b"][1] * tu)
            kw = _thr(case, tu)
            r.append(outcome(geometry.intervals_overlap, a, b, **kw))
            rs.append(outcome(geometry.intervals_overlap, b, a, **kw))
        elif k in ("time", "freq"):
            g1, g2 = _geom(case["g1"], tu, case.get("prov", "fresh")), _geom(case["g2"], tu, case.get("prov", "fresh"))
            if case["g1"] == case["g2"] and TIME_UNITS.index(tu) == 1:
                g2 = g1          # a geometry compared with ITSELF (the very same object, as in a pairwise loop): same answer as with an equal copy
            fn = geometry.have_temporal_overlap if k == "time" else geometry.have_frequency_overlap
            kw = _thr(case, tu if k == "time" else FREQ_UNIT)
            r.append(outcome(fn, g1, g2, **kw))
            rs.append(outcome(fn, g2, g1, **kw))
        elif k == "clip":
            g = _geom(case["g"], tu, case.get("prov", "fresh"))
            # the recording of the clip is time-expanded in two of the three runs (factor by unit): the answer may not depend on it
            clip = data.Clip(recording=_recording(_TES[TIME_UNITS.index(tu) % 3]), start_time=case["clip"][0] * tu, end_time=case["clip"][1] * tu)
            o = outcome(geometry.is_in_clip, g, clip, case["m"] * tu) if case["m"] != 0 else outcome(geometry.is_in_clip, g, clip)
            r.append(o)
            rs.append(o)
        elif k == "clipfar":
            # ticks of 2^-10 s, about an hour into the recording: absolute tolerances that are harmless near 0 bite here
            fu = 2.0 ** -10
            if tu != TIME_UNITS[0]:
                continue
            g = build(case["g"], fu)
            clip = data.Clip(recording=_recording(), start_time=case["clip"][0] * fu, end_time=case["clip"][1] * fu)
            o = outcome(geometry.is_in_clip, g, clip, case["m"] * fu) if case["m"] != 0 else outcome(geometry.is_in_clip, g, clip)
            r.append(o)
            rs.append(o)
        else:
            raise ValueError(k)
    return {"r": r, "rs": rs}

def random_cases(rng, tier):
    """Interval pairs on a much larger lattice (0..10^4 ticks), thresholds around the exact overlap."""
    n = 3000 if tier == "quick" else 30000
    for _ in range(n):
        a1 = rng.randrange(0, 10000); a2 = a1 + rng.choice([0, 1, rng.randrange(0, 3000)])
        mode = rng.random()
        if mode < 0.3:
            b1 = a2 + rng.choice([-1, 0, 1])            # touching / off by one
        elif mode < 0.6:
            b1 = rng.randrange(a1, a2 + 1)               # overlapping / nested
        else:
            b1 = rng.randrange(0, 10000)
        b1 = max(b1, 0)
        b2 = b1 + rng.choice([0, 1, rng.randrange(0, 3000)])
        inter = min(a2, b2) - max(a1, b1)
        t = rng.random()
        abs_, rel = [], []
        if t < 0.4:
            abs_ = [inter + rng.choice([-1, 0, 1])]
        elif t < 0.8:
            rel = [[rng.choice([-1, 0, 1, 2, 3, 4, 5]), 4]]
        elif t < 0.85:
            abs_, rel = [0], [[2, 4]]
        yield {"kind": "iv", "a": [a1, a2], "b": [b1, b2], "abs": abs_, "rel": rel}
    # geometries around the edges of a clip that lies far from time 0 (ticks of 2^-10 s, offsets around one hour)
    for _ in range(n // 3):
        s0 = rng.randrange(3_000_000, 4_000_000)
        ln = rng.randrange(1, 20_000)
        m = rng.choice([0, 0, 1, 5, 100])
        edge = rng.choice([s0 + m, s0 + ln - m])
        d = rng.choice([-3, -1, 0, 1, 2, 16, 40])
        if rng.random() < 0.5:
            g = {"type": "TimeStamp", "coordinates": max(edge + d, 0)}
        else:
            a = max(edge + d - rng.choice([0, 1, 1024, 5000]), 0)
            g = {"type": "TimeInterval", "coordinates": sorted([a, max(edge + d, 0)])}
            if rng.random() < 0.5:
                g = {"type": "TimeInterval", "coordinates": [max(edge + d, 0), max(edge + d, 0) + rng.choice([0, 1, 2000])]}
        yield {"kind": "clipfar", "g": g, "clip": [s0, s0 + ln], "m": m}

def nontrivial(o):
    c = o["in"]
    if c["kind"] == "iv":
        return not (c["a"][0] == c["a"][1] and c["b"][0] == c["b"][1]) and not (c["abs"] and c["rel"])
    return True

MANIFEST = {
    "text": ("Overlap.tla states intervals_overlap / have_*_overlap / is_in_clip on integer ticks; TLC checks symmetry, "
             "monotonicity and the boundary laws on the specification for all intervals of 0..N and enumerates every call "
             "(incl. invalid threshold combinations); each call is executed on the real code at three dyadic units and the "
             "recorded outcomes are validated by TLC (exact equality, symmetry, argument errors). Bounded-exhaustive, plus "
             "random intervals on 0..10^4 ticks."),
    "note": ("trusted: TLC, the binder checks/c12.py (encoder), exactness of float arithmetic on dyadic units; "
             "small-scope hypothesis beyond the enumerated lattice"),
    "design_ref": "DESIGN.md section 4 C12",
}
