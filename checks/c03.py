"""C03 binder: geometry validation.  Encoder only -- the verdict is T_GeomValidate's.

A case is {"kind": type tag, "toks": token string of the coordinate structure, "c": the same structure as
nested JSON (printed by TLC from the tokens with GeomValidate!Tree), "num": "lit" | "fine", "vals": [[code, literal]..]}.
In a "lit" case the numbers are the values; in a "fine" case they are codes of the strictly increasing table "vals"
(GeomValidate!FineTable: non-integer doubles), which the binder maps to doubles on the way in and back on the way out.  The binder pushes the structure through
every entry point of the real library, with the numbers once as floats and once as ints, and records what came
back.  It does not know what is valid.
"""
import collections
import copy
import dataclasses
import json
from typing import Any
from types import SimpleNamespace

from pydantic import BaseModel

from soundevent import data
from soundevent.data import geometries as G
from vt.enc import ticks

PROPERTY = "C03"
TRACE = "T_GeomValidate"
ENUM = {
    "quick":    [dict(module="MC_GeomValidate", cfg="MC_GeomValidate_quick.cfg", workers=8)],
    # TLC prints interim coverage reports every minute and the engine takes an interim zero for a dead action, so the
    # coverage guard runs on the small sub-universe "cov" (contained in both tiers: an action taken there is taken in them)
    "thorough": [dict(module="MC_GeomValidate", cfg="MC_GeomValidate_thorough.cfg", workers=16, heap="8g"),
                 dict(module="MC_GeomValidate", cfg="MC_GeomValidate_cov.cfg", workers=4, coverage=True, expect_cases=False)],
}
POOL = 12
CHUNK = 1200
RULE = ("one case per (type tag, coordinate structure) of the TLA+ universe (flat lists over the value alphabet, scalars, "
        "extra nesting, point lists, valid skeletons of the nine kinds, every single-position token edit of every skeleton, "
        "every skeleton under every tag; thorough: every double edit of the small skeletons) plus random multi-edit structures; "
        "each run through 6 entry points x 2 number renderings, and through the 5 container-passing entry points again with the "
        "structure built from tuples (all levels / inner levels / outermost level), and the attributes mode once per guise of the "
        "attribute object (namespace, plain instance, dataclass, named tuple, foreign pydantic model without / with extra fields); non-trivial = the structure is a non-empty list")
TRUSTED_BASE = ["checks/c03.py (token string <-> nested list, float/int rendering, calls the six entry points, "
                "reads class/tag/coordinates back as exact integers, library == for the dump round trip)"]
ASSUMPTIONS = ["coordinates are finite numbers: ints, integer-valued floats, and the non-integer doubles of GeomValidate!FineTable "
               "(many-bit dyadic fractions, decimals beyond six digits, values 1e-7 inside / outside MAX_FREQUENCY); NaN, inf, strings, "
               "booleans, tuples are outside the statement",
               "validity and normal forms are order facts, so a strictly increasing coding of doubles by integers that keeps 0 and "
               "MAX_FREQUENCY leaves the specification unchanged; the binder checks that the table increases strictly",
               "a 'validation error' is any ValueError (pydantic.ValidationError is one)",
               "the one open reading of the statement (multi-line 'strictly forward': first<last vs every step) "
               "is not judged: accept is demanded under the strict reading, reject under the documented one; a polygon "
               "(or multi-polygon member) without any ring is invalid under every reading"]

OPEN, CLOSE = -98, -99
ABSENT = -97         # GeomValidate!ABSENT: the structure [ABSENT] means "no coordinates key / argument / attribute at all"
CONTS = ["list", "tuple", "inner", "outer"]          # GeomValidate!Containers (random cases carry it like the enumerated ones)
ENTRIES = ["ctor", "model_validate", "gv_json", "gv_dict", "gv_attr", "sound_event"]
NUMS = ["float", "int"]
_REC = None


def _recording():
    global _REC
    if _REC is None:
        _REC = data.Recording(path="a.wav", duration=100.0, channels=1, samplerate=8000)
    return _REC


OFF = -777777        # an observed number that is no value of the case's table


def enc(x, back=None):
    """nested list / number -> token string (numbers must be exact integers, or values of the table `back`)."""
    if isinstance(x, (list, tuple)):
        out = [OPEN]
        for y in x:
            out += enc(y, back)
        return out + [CLOSE]
    if back is not None:
        return [back.get(float(x), OFF)]
    v = ticks(x, 1.0)
    if v in (OPEN, CLOSE):
        raise ValueError("value collides with a bracket token")
    return [v]


def dec(toks):
    """token string -> nested list / number."""
    def node(i):
        if toks[i] == OPEN:
            out, i = [], i + 1
            while toks[i] != CLOSE:
                v, i = node(i)
                out.append(v)
            return out, i + 1
        return toks[i], i + 1
    v, i = node(0)
    if i != len(toks):
        raise ValueError("token string is not a single node")
    return v


def render(c, num, table=None):
    if isinstance(c, list):
        return [render(y, num, table) for y in c]
    if table is not None:
        return table[c]
    return float(c) if num == "float" else int(c)


def _tables(case):
    """code -> double and double -> code of a fine case; the coding must be strictly increasing and keep 0 and MAX_FREQUENCY."""
    if case.get("num", "lit") != "fine":
        return None, None
    pairs = [(int(k), float(v)) for k, v in case["vals"]]
    if any(a[0] >= b[0] or a[1] >= b[1] for a, b in zip(pairs, pairs[1:])) or (0, 0.0) not in pairs \
            or (G.MAX_FREQUENCY, float(G.MAX_FREQUENCY)) not in pairs:
        raise AssertionError("the fine table is not an order embedding")
    return dict(pairs), {v: k for k, v in pairs}


# ---- the guises of an attribute object (GeomValidate!Guises): carriers of `type` and `coordinates`, nothing more
class _Plain:
    def __init__(self, type, coordinates):
        self.type = type
        self.coordinates = coordinates


@dataclasses.dataclass
class _DataClass:
    type: str
    coordinates: Any


_NamedTuple = collections.namedtuple("_NamedTuple", ["type", "coordinates"])


class _Foreign(BaseModel):
    """somebody else's pydantic model (built without validation: it only carries the two attributes)."""
    type: str
    coordinates: Any


class _ForeignExtra(BaseModel):
    type: str
    coordinates: Any
    note: str = "mine"
    score: float = 0.5


# the same carriers without a `coordinates` attribute
class _PlainT:
    def __init__(self, type):
        self.type = type


@dataclasses.dataclass
class _DataClassT:
    type: str


_NamedTupleT = collections.namedtuple("_NamedTupleT", ["type"])


class _ForeignT(BaseModel):
    type: str


class _ForeignExtraT(BaseModel):
    type: str
    note: str = "mine"
    score: float = 0.5


def _either(full, type_only):
    return lambda **d: (full if "coordinates" in d else type_only)(**d)


GUISES = {"namespace": lambda **d: SimpleNamespace(**d), "plain": _either(_Plain, _PlainT),
          "dataclass": _either(_DataClass, _DataClassT), "namedtuple": _either(_NamedTuple, _NamedTupleT),
          "pydantic": _either(_Foreign.model_construct, _ForeignT.model_construct),
          "pydantic_extra": _either(_ForeignExtra.model_construct, _ForeignExtraT.model_construct)}


def _call(entry, kind, c, absent=False):
    cls = getattr(data, kind)
    d = {"type": kind} if absent else {"type": kind, "coordinates": copy.deepcopy(c)}
    if entry == "ctor":
        return cls() if absent else cls(coordinates=d["coordinates"])
    if entry == "model_validate":
        return cls.model_validate(d)
    if entry == "gv_json":
        return data.geometry_validate(json.dumps(d), mode="json")
    if entry == "gv_dict":
        return data.geometry_validate(d, mode="dict")
    if entry.startswith("gv_attr"):                    # "gv_attr" | "gv_attr/<guise>"
        make = GUISES[entry.partition("/")[2] or "namespace"]
        return data.geometry_validate(make(**d), mode="attributes")
    if entry == "sound_event":
        return data.SoundEvent(geometry=d, recording=_recording()).geometry
    raise KeyError(entry)


def contain(c, how, top=True):
    """the same numbers and nesting in other Python containers: "list" | "tuple" | "inner" (list of tuples) | "outer" (tuple of lists)."""
    if not isinstance(c, (list, tuple)):
        return c
    as_tuple = {"list": False, "tuple": True, "inner": not top, "outer": top}[how]
    items = [contain(y, how, False) for y in c]
    return tuple(items) if as_tuple else items


def _build(entry, kind, value, absent=False):
    """call one entry point; returns (geometry, None) or (None, exception) or ("other", object)."""
    try:
        g = _call(entry, kind, value, absent)
    except Exception as ex:  # an observation
        return None, ex
    return g, None


def _run(entry, num, kind, c, table=None, back=None, cont="list"):
    r = {"entry": entry, "num": num, "cont": cont, "res": "", "exc": "", "verr": False, "cls": "", "tag": "", "coords": [],
         "eq": "", "cls2": "", "coords2": [], "twin": "", "dumpeq": ""}
    absent = c == ABSENT                       # no coordinates handed over at all
    value = render(c, num, table)
    g, ex = _build(entry, kind, contain(value, cont), absent)
    if ex is not None:
        r.update(res="raise", exc=type(ex).__name__, verr=isinstance(ex, ValueError))
        return r
    if not isinstance(g, G.BaseGeometry):
        r.update(res="other", exc=type(g).__name__)
        return r
    r.update(res="ok", cls=type(g).__name__, tag=str(g.type), coords=enc(g.coordinates, back))
    try:
        g2 = data.geometry_validate(g.model_dump_json())
        r.update(eq="equal" if (g2 == g) is True else "differs", cls2=type(g2).__name__, coords2=enc(g2.coordinates, back))
    except Exception as ex:
        r.update(eq="raise", cls2=type(ex).__name__)
    if cont == "list":
        return r
    # the twin: the same numbers in plain lists through the same entry point (built afresh)
    t, ex = _build(entry, kind, copy.deepcopy(value))
    if ex is not None or not isinstance(t, G.BaseGeometry):
        r.update(twin="raise", dumpeq="raise")
    else:
        r.update(twin="equal" if (g == t) is True and (t == g) is True else "differs",
                 dumpeq="equal" if g.model_dump() == t.model_dump() else "differs")
    return r


def _variants(c, conts):
    """the container variants that really differ for this structure (a bare number has none; a flat list has two)."""
    seen, out = set(), []
    for how in conts:
        k = repr(contain(c, how))
        if k not in seen:
            seen.add(k)
            out.append(how)
    return out


def execute(case):
    c = case["c"]
    if enc(c) != case["toks"] or dec(case["toks"]) != c:      # the two renderings of the input must be the same structure
        raise AssertionError("case tokens and nested structure disagree")
    table, back = _tables(case)
    nums = ["fine"] if table is not None else NUMS            # non-integer doubles: one rendering
    runs = [_run(e, n, case["kind"], c, table, back) for e in ENTRIES for n in nums]
    # the other containers, wherever Python containers are handed over (JSON text has arrays only)
    for how in _variants(c, case.get("conts", ["list"]))[1:]:
        runs += [_run(e, nums[0], case["kind"], c, table, back, how) for e in ENTRIES if e != "gv_json"]
    # the attributes mode once per guise of the attribute object (the first guise is the one ENTRIES already ran)
    for guise in case.get("guises", [])[1:]:
        runs.append(_run("gv_attr/" + guise, nums[0], case["kind"], c, table, back))
    return {"runs": runs}


# ----------------------------------------------------------------------------- random structures (larger universe)
KINDS = ["TimeStamp", "TimeInterval", "Point", "LineString", "Polygon", "BoundingBox", "MultiPoint", "MultiLineString", "MultiPolygon"]
_T = [0, 0, 1, 2, 3, 7, 10, 100, 4999999, 5000000, 5000001, 2000000000]
_F = [0, 0, 1, 250, 1000, 4999999, 5000000, 5000000]
_BAD = [-1, -5, -2000000000, 5000001, 6000000, 2000000000]


# the coding of GeomValidate!FineTable (random fine cases carry it along like the enumerated ones do)
FINE = [(-1, "-0.00000095367431640625"), (0, "0.0"), (1, "0.00000095367431640625"), (2, "0.123456789"), (3, "1.0"),
        (4, "1.000000000931322574615478515625"), (5, "1.0000001"), (6, "1.0000004"), (7, "2.5"),
        (4999999, "4999999.9999999"), (5000000, "5000000.0"), (5000001, "5000000.0000001")]


def _leaves(c):
    if isinstance(c, list):
        for y in c:
            yield from _leaves(y)
    else:
        yield c


def _pt(rng):
    return [rng.choice(_T), rng.choice(_F)]


def _pts(rng, lo, hi):
    return [_pt(rng) for _ in range(rng.randint(lo, hi))]


_LINE_T = list(range(0, 50))     # the times multi-lines are drawn from (ascending)


def _line_fwd(rng):
    n = rng.randint(2, 5)
    if rng.random() < 0.5:          # every step forward
        ts = sorted(rng.sample(_LINE_T, n))
    else:                            # forward overall only
        ts = [rng.choice(_LINE_T[:-1]) for _ in range(n)]
        if ts[0] >= ts[-1]:
            ts[-1] = rng.choice([t for t in _LINE_T if t > ts[0]])
    return [[t, rng.choice(_F)] for t in ts]


def _poly(rng):
    return [_pts(rng, 3, 6) for _ in range(rng.randint(1, 3))]


def _valid(rng, kind):
    if kind == "TimeStamp":
        return rng.choice(_T)
    if kind == "TimeInterval":
        return sorted([rng.choice(_T), rng.choice(_T)])
    if kind == "Point":
        return _pt(rng)
    if kind == "BoundingBox":
        return [rng.choice(_T), rng.choice(_F), rng.choice(_T), rng.choice(_F)]
    if kind == "LineString":
        return _pts(rng, 2, 6)
    if kind == "MultiPoint":
        return _pts(rng, 1, 5)
    if kind == "Polygon":
        return _poly(rng)
    if kind == "MultiLineString":
        return [_line_fwd(rng) for _ in range(rng.randint(1, 3))]
    return [_poly(rng) for _ in range(rng.randint(1, 3))]


def _paths(c, here=()):
    yield here
    if isinstance(c, list):
        for i, y in enumerate(c):
            yield from _paths(y, here + (i,))


def _get(c, path):
    for i in path:
        c = c[i]
    return c


def _edit(rng, c):
    """one random generic edit of a nested structure (mirrors the edit vocabulary of MC_GeomValidate)."""
    c = copy.deepcopy(c)
    paths = list(_paths(c))
    path = rng.choice(paths)
    node = _get(c, path)
    op = rng.choice(["replace", "replace", "replace", "drop", "insert", "dup", "wrap", "unwrap", "reverse", "empty", "swap"])

    def put(new_nodes):              # replace node at path by the given list of nodes
        nonlocal c
        if not path:
            if len(new_nodes) == 1:
                c = new_nodes[0]
            return
        parent = _get(c, path[:-1])
        parent[path[-1]:path[-1] + 1] = new_nodes

    if op == "replace":
        leaves = [p for p in paths if not isinstance(_get(c, p), list)]
        if leaves:
            p = rng.choice(leaves)
            v = rng.choice(_BAD + _T + _F)
            if p:
                _get(c, p[:-1])[p[-1]] = v
            else:
                c = v
    elif op == "drop":
        put([])
    elif op == "insert":
        put([node, rng.choice([0, 1, 5000000])])
    elif op == "dup":
        put([node, copy.deepcopy(node)])
    elif op == "wrap":
        if path:
            put([[node]])
        else:
            c = [node]
    elif op == "unwrap" and isinstance(node, list):
        put(list(node))
    elif op == "reverse" and isinstance(node, list):
        node.reverse()
    elif op == "empty" and isinstance(node, list):
        del node[:]
    elif op == "swap" and isinstance(node, list) and len(node) >= 2:
        i, j = rng.sample(range(len(node)), 2)
        node[i], node[j] = node[j], node[i]
    return c


def random_cases(rng, tier):
    n = 1500 if tier == "quick" else 10000
    for _ in range(n):
        kind = rng.choice(KINDS)
        c = _valid(rng, kind)
        for _ in range(rng.choice([0, 1, 1, 1, 2, 2, 3])):
            c = _edit(rng, c)
        if rng.random() < 0.08:
            kind = rng.choice(KINDS)
        toks = enc(c)
        if len(toks) > 400:
            continue
        yield {"kind": kind, "toks": toks, "c": c, "num": "lit", "vals": [], "conts": CONTS, "guises": list(GUISES)}
    # the same generator over the codes of the fine table (non-integer doubles)
    global _T, _F, _BAD, _LINE_T
    lit = (_T, _F, _BAD, _LINE_T)
    codes = [k for k, _ in FINE]
    _T, _F, _BAD = [c for c in codes if c >= 0], [c for c in codes if 0 <= c <= 5000000], [-1, 5000001]
    _LINE_T = list(_T)
    try:
        for _ in range(n // 4):
            kind = rng.choice(KINDS)
            c = _valid(rng, kind)
            for _ in range(rng.choice([0, 0, 1, 1, 2])):
                c = _edit(rng, c)
            if any(v not in codes for v in _leaves(c)):
                continue
            toks = enc(c)
            if len(toks) <= 400:
                yield {"kind": kind, "toks": toks, "c": c, "num": "fine", "vals": [[k, v] for k, v in FINE], "conts": CONTS, "guises": list(GUISES)}
    finally:
        _T, _F, _BAD, _LINE_T = lit


def nontrivial(o):
    c = o["in"]["c"]
    return isinstance(c, list) and len(c) > 0


MANIFEST = {
    "text": ("GeomValidate.tla represents every coordinate structure -- valid or malformed (wrong arity, wrong nesting, scalars for lists) -- "
             "as a bracket-token string, so one TLC type covers them all, and defines on it Valid (shape, time >= 0, 0 <= frequency <= "
             "MAX_FREQUENCY, the per-type rules, under the readings of the statement's one open point), Normal / AllowedNormals, and "
             "Impl: the validator chain of each of the nine classes (pydantic type layer, first and second field validator, Python "
             "unpacking, second validator not run after the first raised). MC_GeomValidate.tla steps through that chain and TLC checks "
             "Impl accepts iff Valid, Impl's value = Normal, idempotence / validity / point preservation of Normal, and that a fast parser "
             "agrees with a declarative one, over flat lists on a value alphabet incl. -1, 0, MAX_FREQUENCY, MAX_FREQUENCY+1 (and, through an order-preserving coding, "
             "non-integer doubles: 2^-20, 1+2^-30, 1.0000001 vs 1.0000004, MAX_FREQUENCY -/+ 1e-7), scalars, "
             "extra nesting, point lists, valid skeletons of all kinds, every single-position token edit of every skeleton (replace, drop, "
             "insert, repeat, wrap, unwrap, reverse, empty), every skeleton under every tag, and (thorough) every double edit. Each "
             "structure is then pushed through the constructor, model_validate, geometry_validate in json / dict / attributes mode and "
             "SoundEvent(geometry=dict), with float and int numbers, and TLC judges accept/reject, error class, normal form, class = tag, "
             "agreement of the modes, the JSON dump round trip and equality with the list-built twin. Bounded-exhaustive plus random multi-edit structures."),
    "note": ("trusted: TLC, the binder checks/c03.py (token <-> nested list, calls, exact read-back); numbers are ints, integer-valued floats and the "
             "non-integer doubles of FineTable (NaN, inf, strings, booleans, tuples are not generated); 'no object exists' is observed as 'the call "
             "raised'; where the statement is open (multi-line forward: first<last vs every step) nothing is demanded; "
             "small-scope hypothesis beyond the enumerated structures"),
    "design_ref": "DESIGN.md section 4 C03",
}
