"""C07 binder: match_geometries.  Encoder only -- the verdict is T_Matching's.

Lattice cases (TLC, spec/MC_Matching.tla): lists of TimeInterval / BoundingBox geometries, run at three dyadic time
units with zero buffers (so nothing is buffered under any reading of C06 and the exact rational affinity matrix of the
specification applies).  Random cases: lists of arbitrary-double geometries of all nine kinds with positive buffers;
there the matrix the specification works with is the observed compute_affinity of every pair.
Indices are reported 1-based; None is [] (TLC cannot read null).
"""
import random
import warnings

from soundevent.evaluation import compute_affinity, match_geometries
from soundevent.geometry import geometry_to_shapely
from vt.enc import limbs, fhex
from vt.geom import build, TIME_UNITS, FREQ_UNIT
from checks.c06 import _val, _rand_coords, _mk, KINDS, _NONFINITE, provenance

PROPERTY = "C07"
TRACE = "T_Matching"
ENUM = {
    "quick": [dict(module="MC_Matching", cfg="MC_Matching_quick.cfg", workers=12),
              dict(module="MC_Matching", cfg="MC_Matching_quick_boxes.cfg", workers=4),
              dict(module="MC_Matching", cfg="MC_Matching_quick_degenerate.cfg", workers=8),
              dict(module="MC_Matching", cfg="MC_Matching_buffered2.cfg", workers=4),
              dict(module="MC_Matching", cfg="MC_Matching_sim3.cfg", workers=4, simulate="num=300", depth=30)],
    # coverage (an action never taken = failure) on the small config only: TLC's interim coverage reports of a long run contain zeros
    "thorough": [dict(module="MC_Matching", cfg="MC_Matching_quick_boxes.cfg", workers=4, coverage=True),
                 dict(module="MC_Matching", cfg="MC_Matching_quick_degenerate.cfg", workers=8),
                 dict(module="MC_Matching", cfg="MC_Matching_buffered2.cfg", workers=4),
                 dict(module="MC_Matching", cfg="MC_Matching_buffered4.cfg", workers=8),
                 dict(module="MC_Matching", cfg="MC_Matching_thorough.cfg", workers=16),
                 dict(module="MC_Matching", cfg="MC_Matching_thorough_n5.cfg", workers=16),
                 dict(module="MC_Matching", cfg="MC_Matching_thorough_boxes.cfg", workers=16),
                 dict(module="MC_Matching", cfg="MC_Matching_sim3.cfg", workers=4, simulate="num=2500", depth=30)],
}
POOL = 12
CHUNK = 1500
RULE = ("every pair of lists (lengths 0..2 each, n + m <= 3 quick, over the proper intervals of 0..3 quick / 0..4 thorough and over a box-and-interval "
        "alphabet and over an alphabet with zero-extent geometries (zero-length interval, TimeStamp with zero buffer, zero-duration "
        "box); n + m <= 5 with n, m <= 3 thorough; 3 x 3 sampled by tlc -simulate), order significant, run at three dyadic "
        "units; plus random lists "
        "(0..4 geometries a side, all nine kinds, arbitrary doubles); non-trivial = both lists non-empty")
TRUSTED_BASE = ["checks/c07.py (build lists, list(match_geometries(...)), compute_affinity of every pair, encode; "
                "indices +1, None -> [])"]
ASSUMPTIONS = ["'buffered' lattice lists (TimeStamp / Point / MultiPoint / axis-parallel LineString / box, time buffer 2 or 4 ticks, i.e. up "
               "to 4 s) are restricted to lists whose cross pairs all have a time-only side, where the exact value is the IoU of the "
               "grown time extents; random lists with buffers of 1.5..4 s are judged on the observed matrix only",
               "every geometry object is constructed, derived by model_copy / attribute assignment from a used geometry elsewhere, or "
               "deep-copied (case fields sp, tp); the reference affinities are computed on equal geometries constructed afresh: the "
               "affinity of a pair is taken to be a function of the two geometries as values",
               "'twin' lists (different kinds, identical coordinate literals) run at unit 1 s / 1 Hz with buffers 0.25 s / 0.5 Hz and are "
               "judged on the observed matrix; lattice alphabets contain a multi-polygon with an interior ring (exact rectilinear IoU)",
               "lattice cases use zero buffers and TimeStamp / TimeInterval / BoundingBox geometries: the exact rational IoU of "
               "Affinity.tla is the affinity under every reading of C06; a pair of zero-extent geometries (union 0) counts 0 as long as "
               "compute_affinity itself returns 0 there, otherwise the observed matrix judges the run",
               "random cases: optimality is decided on the observed affinities floored to 2^-20 (tolerance min(n,m) * 1e-6)"]


def _idx(i):
    return [] if i is None else [int(i) + 1]


def _run(src, tgt, sp, tp, make, far, tb, fb):
    """src, tgt: geometry records; sp, tp: where each object comes from (checks.c06.provenance); the reference
    affinities are computed on equal geometries constructed afresh."""
    objs = [[provenance(make, r, p, far * (k + 1)) for k, (r, p) in enumerate(zip(recs, provs))]
            for recs, provs in ((src, sp), (tgt, tp))]
    try:
        with warnings.catch_warnings():
            warnings.simplefilter("ignore")
            ms = list(match_geometries(objs[0], objs[1], time_buffer=tb, freq_buffer=fb))
        m = []
        for s, t, a in ms:
            a = float(a)
            m.append({"s": _idx(s), "t": _idx(t), "a": {"l": limbs(a), "h": fhex(a), "r": ""}})
        raised = ""
    except Exception as ex:  # an observation
        m, raised = [], type(ex).__name__
    aff = [[_val(compute_affinity, make(a), make(b), tb, fb) for b in tgt] for a in src]
    return {"raised": raised, "m": m, "aff": aff}


TWIN_KINDS = [("TimeInterval", "Point"), ("LineString", "MultiPoint"), ("Polygon", "MultiLineString")]
_make_real = lambda r: _mk(r["type"], r["coordinates"])


def _random(case):
    rng = random.Random(case["seed"])
    tb, fb = rng.uniform(0.05, 0.5), rng.uniform(50.0, 500.0)
    if case["big"]:                                  # buffers well beyond 1 s
        tb = rng.uniform(1.5, 4.0)

    def one(kind):
        for _ in range(50):
            a0 = rng.uniform(0.0, 2.5)                  # a narrow window and band: overlaps are frequent
            r = {"type": kind, "coordinates": _rand_coords(rng, kind, a0, a0 + rng.uniform(0.3, 3.0), 1000.0, 4000.0)}
            if geometry_to_shapely(_make_real(r)).is_valid:
                return r
        raise RuntimeError("no valid random geometry")

    def flat(kind):                                  # a zero-extent geometry of a kind that is never buffered
        t = rng.uniform(0.0, 4.0)
        if kind == "BoundingBox":
            return {"type": kind, "coordinates": [t, 1000.0, t, 3000.0]}
        return {"type": "TimeInterval", "coordinates": [t, t]}

    def twins(k1, k2):                               # two kinds, one coordinate literal
        for _ in range(50):
            a0 = rng.uniform(0.0, 2.5)
            if k1 == "Polygon":
                pts = _rand_coords(rng, "LineString", a0, a0 + rng.uniform(0.5, 3.0), 1000.0, 4000.0)
                if len(pts) < 3:
                    continue
                c = [pts]
            else:
                c = _rand_coords(rng, k1, a0, a0 + rng.uniform(0.3, 3.0), 1000.0, 4000.0)
            r1, r2 = {"type": k1, "coordinates": c}, {"type": k2, "coordinates": c}
            try:
                if all(geometry_to_shapely(_make_real(r)).is_valid for r in (r1, r2)):
                    return r1, r2
            except Exception:
                pass
        raise RuntimeError("no valid twin geometries")
    lists = [[one(k) for k in case["ks"]], [one(k) for k in case["kt"]]]
    for lst, kinds, flags in ((lists[0], case["ks"], case["deg"][0]), (lists[1], case["kt"], case["deg"][1])):
        for i in flags:
            lst[i - 1] = flat(kinds[i - 1])
    if case["dup"] and lists[0] and lists[1]:        # equal geometries on both sides: ties and affinities of 1
        lists[1][0] = lists[0][-1]
    for sa, ia, sb, ib in case["tw"]:
        kinds = (case["ks"], case["kt"])
        lists[sa][ia - 1], lists[sb][ib - 1] = twins(kinds[sa][ia - 1], kinds[sb][ib - 1])
    return {"runs": [_run(lists[0], lists[1], case["sp"], case["tp"], _make_real, 3.0, tb, fb)]}


def execute(case):
    if case["kind"] == "lat":
        return {"runs": [_run(case["src"], case["tgt"], case["sp"], case["tp"], (lambda r, tu=tu: build(r, tu)), 5,
                              case["tb"] * tu, case["fb"] * FREQ_UNIT)
                         for tu in TIME_UNITS]}
    if case["kind"] == "twin":                       # unit 1 s / 1 Hz: the literals of the two kinds stay equal
        return {"runs": [_run(case["src"], case["tgt"], case["sp"], case["tp"], (lambda r: build(r, 1.0, 1.0)), 5, 0.25, 0.5)]}
    return _random(case)


def random_cases(rng, tier):
    n = 1000 if tier == "quick" else 15000
    for _ in range(n):
        ks = [rng.choice(KINDS) for _ in range(rng.randint(0, 4))]
        kt = [rng.choice(KINDS) for _ in range(rng.randint(0, 4))]
        deg = [[], []]
        if rng.random() < 0.3:                       # zero-extent geometries (positions listed 1-based), often leading both lists
            for side, kinds in enumerate((ks, kt)):
                for i in range(len(kinds)):
                    if (i == 0 and rng.random() < 0.8) or rng.random() < 0.15:
                        kinds[i] = rng.choice(["TimeInterval", "BoundingBox"])
                        deg[side].append(i + 1)
        tw = []
        if not (deg[0] or deg[1]) and len(ks) + len(kt) >= 2 and rng.random() < 0.3:
            # two geometries of different kinds with the same coordinate literal, in one list or across the lists
            slots = [(0, i + 1) for i in range(len(ks))] + [(1, i + 1) for i in range(len(kt))]
            (sa, ia), (sb, ib) = rng.sample(slots, 2)
            k1, k2 = rng.choice(TWIN_KINDS)
            if rng.random() < 0.5:
                k1, k2 = k2, k1
            (ks, kt)[sa][ia - 1], (ks, kt)[sb][ib - 1] = k1, k2
            if k1 in ("Polygon", "MultiLineString"):         # binder: the Polygon side drives the generation
                if k1 != "Polygon":
                    sa, ia, sb, ib = sb, ib, sa, ia
            elif k1 in ("Point", "MultiPoint"):
                sa, ia, sb, ib = sb, ib, sa, ia
            tw = [[sa, ia, sb, ib]]
        yield {"kind": "rnd", "seed": rng.randrange(1, 2**31 - 1), "ks": ks, "kt": kt,
               "dup": rng.random() < 0.3 and not (deg[0] or deg[1] or tw), "deg": deg, "tw": tw, "big": rng.random() < 0.25,
               "sp": [rng.choice([0, 0, 1, 2, 3]) for _ in ks], "tp": [rng.choice([0, 0, 1, 2, 3]) for _ in kt]}


def nontrivial(o):
    c = o["in"]
    return bool(c["src"] and c["tgt"]) if c["kind"] == "lat" else bool(c["ks"] and c["kt"])

MANIFEST = {
    "text": ("Matching.tla defines the exact rational IoU matrix of two lists of lattice geometries, Pairings (partial injective "
             "maps over positive entries), OptVal, and the clauses Cover / PositiveOnly / ReportedAffinity / UnpairedZero / "
             "Optimal. MC_Matching.tla is _select_matches as a state machine (a complete maximum-weight assignment chosen "
             "nondeterministically among the optimal ones, zero-affinity assignments skipped, leftover rows, leftover columns); "
             "TLC proves Impl => Cover, PositiveOnly, Optimal on every pair of lists of the bounded universe, the lemma that a best "
             "complete assignment is worth OptVal, and that the row recursion used by the validator equals OptVal; the algorithm as "
             "found violates PositiveOnly (spec/history/MC_Matching_prefix). Every enumerated pair of lists (and 3 x 3 lists sampled "
             "by tlc -simulate) is run through match_geometries and compute_affinity at three dyadic units and TLC validates the "
             "recorded matches; random lists of arbitrary-double geometries of all kinds are validated against the observed "
             "affinity matrix."),
    "note": ("trusted: TLC, binder checks/c07.py (encoder: indices +1, None -> []), exact arithmetic on dyadic units. Lattice "
             "verdicts are exact (rational sums); on random doubles optimality is decided on affinities floored to 2^-20."),
    "design_ref": "DESIGN.md section 4 C07",
}
