"""C04 binder: relational schema invariants through four construction paths.  Encoder only -- the verdict is
T_SchemaRel's.

For one case of spec/MC_SchemaRel.tla the binder tries to build the described object through
  ctor : the constructors of soundevent.data, bottom-up
  dict : <Class>.model_validate(<nested dict>)
  json : <Class>.model_validate_json(<document>)
  aoef : a hand-written AOEF document (never produced by the saver) loaded with soundevent.io.load
and records, per path, whether an object came out, the exception class otherwise, and -- if it was built -- the
values it actually stores (as universe numbers / exact limbs), which TLC then judges.
"""
import datetime
import json
import math
import os
import tempfile
import uuid as _uuid
import warnings

from soundevent import data, io
from vt.enc import limbs

PROPERTY = "C04"
TRACE = "T_SchemaRel"
ENUM = {
    "quick":    [dict(module="MC_SchemaRel", cfg="MC_SchemaRel_quick.cfg", workers=8)],
    # ClipCrash (TypeError inside the validator) is a branch of the as-found "before" validator only
    "thorough": [dict(module="MC_SchemaRel", cfg="MC_SchemaRel_thorough.cfg", workers=16, coverage=True,
                      may_be_unused=["ClipCrash", "CeMergedOk", "CeMergedBad"])],      # branches of the controls only
}
POOL = 12
CHUNK = 4000
PATHS = ["ctor", "dict", "json", "aoef"]
RULE = ("every case of the TLA+ enumeration -- clip evaluations: 0..2 annotations x 0..2 predictions x match lists over "
        "(none | p1 | p2 | foreign) x (none | a1 | a2 | foreign), also with annotations / predictions that wrap one and the same "
        "sound event (a1 and a2, a foreign annotation and a1, all three) and with predictions that carry the uuid of an "
        "annotation and with sound_events lists that hold an event twice (same object / equal copy) x clip pairing (same object, equal "
        "copy, later-enriched copies of the same uuid, another clip over the same span, other clip, other "
        "recording); single matches; annotation projects: every ordered selection of 3 clips as tasks x every sequence of <= 3 annotated clips (any order, a clip annotated twice) x later-enriched copies of a clip on the task / annotation side; clips: 5 x 5 start/end "
        "values x number encodings (numbers, numeric strings, mixed) x 2 units; scores: 10 values around 0 and 1 (+ absent) x "
        "6 bounded fields (+ Evaluation.score, observed only) x number/string -- each built through 4 paths; "
        "the dict path also fed with MappingProxyType / UserDict / ChainMap / OrderedDict; 28 representative cases re-executed in a "
        "child interpreter started with -O; non-trivial = every case (each is a distinct arrangement); the evidence counts valid and invalid ones")
TRUSTED_BASE = ["checks/c04.py (builds objects / dicts / JSON / AOEF documents from the case, calls constructors, "
                "model_validate, model_validate_json, io.load; reads stored values back by uuid and as exact limbs)"]
ASSUMPTIONS = ["'every annotated / predicted sound event exactly once' = one mention per distinct event, also when a list holds it twice",
               "a clip is identified by its uuid (another uuid over the same span is another clip): a copy with added features / a tagged copy of its recording is the same clip",
               "AOEF documents are self-contained (every referenced id is defined): dangling references are C02's subject",
               "two clips are 'the same clip' iff they carry the same uuid (object identity is not required)",
               "Evaluation.score is unbounded in the library and not named by the statement's anchors: observed, not judged",
               "NaN start/end times are not generated (the statement speaks of orderings)"]


def U(i):
    return _uuid.UUID(int=i)


T0 = datetime.datetime(2020, 1, 1)
T0S = "2020-01-01T00:00:00"
REC = data.Recording(uuid=U(1), path="a.wav", duration=1000.0, channels=1, samplerate=8000)
REC2 = data.Recording(uuid=U(2), path="b.wav", duration=1000.0, channels=1, samplerate=8000)
TAG = data.Tag(term=data.term_from_key("species"), value="x")
REC_DOC = {"uuid": str(U(1)), "path": "a.wav", "duration": 1000.0, "channels": 1, "samplerate": 8000}
REC2_DOC = {"uuid": str(U(2)), "path": "b.wav", "duration": 1000.0, "channels": 1, "samplerate": 8000}
TAG_DOC = {"id": 0, "key": "species", "value": "x"}

# ---------------------------------------------------------------- universe objects (fresh on every call)
CLIP_ID = {"A": 0x10, "B": 0x11}
SE_ID, ANN_ID, PRED_ID, MATCH_ID = 0x20, 0x30, 0x40, 0x50


def _clip(uid, rec=REC, start=0.0, end=10.0, enriched=0):
    """enriched: a later copy of the same clip (same uuid, recording uuid, times) with more non-identity content:
    1 = clip features were computed, 2 = its copy of the recording received a tag."""
    kw = {}
    if enriched == 1:
        kw["features"] = [data.Feature(term=data.term_from_key("snr"), value=1.5)]
    if enriched == 2:
        rec = rec.model_copy(update={"tags": [TAG]})
    return data.Clip(uuid=U(uid), recording=rec, start_time=start, end_time=end, **kw)


def _se(k):
    return data.SoundEvent(uuid=U(SE_ID + k), recording=REC, geometry=data.TimeInterval(coordinates=[1.0, 2.0]))


def _wrapped(wrap, k):
    """Which sound event the k-th annotation / prediction wraps: wrap[k - 1] when the case says so, its own otherwise.
    Different annotations (predictions) may wrap the same sound event."""
    return wrap[k - 1] if wrap and k <= len(wrap) else k


def _ann(k, wrap=None):
    return data.SoundEventAnnotation(uuid=U(ANN_ID + k), sound_event=_se(_wrapped(wrap, k)), created_on=T0)


K = 6                      # universe numbers 1..K for annotations and for predictions (enumerated cases use 1..3)


def _pred_uuid(k, share=None):
    """The uuid of prediction k: its own, or -- share[k - 1] = j > 0 -- the very uuid of annotation j."""
    j = share[k - 1] if share and k <= len(share) else 0
    return U(ANN_ID + j) if j else U(PRED_ID + k)


def _pred(k, wrap=None, share=None):
    return data.SoundEventPrediction(uuid=_pred_uuid(k, share), sound_event=_se(K + _wrapped(wrap, k)), score=0.5)


def _as_mapping(d, guise):
    """The same key/value data as another Mapping type (model_validate accepts any Mapping, not only dict)."""
    import collections
    import types
    if guise == "dict":
        return d
    if guise == "proxy":
        return types.MappingProxyType(d)
    if guise == "userdict":
        return collections.UserDict(d)
    if guise == "chainmap":
        return collections.ChainMap(d)
    if guise == "ordered":
        return collections.OrderedDict(d)
    raise ValueError(guise)


def _attempt(fn):
    """Run one construction; never judge."""
    try:
        with warnings.catch_warnings():
            warnings.simplefilter("ignore")
            return fn(), ""
    except Exception as ex:      # every exception class is an observation
        return None, type(ex).__name__


def _load_doc(doc):
    fd, path = tempfile.mkstemp(suffix=".json", prefix="c04_")
    try:
        with os.fdopen(fd, "w") as fh:
            fh.write(json.dumps(doc, allow_nan=True))
        return io.load(path)
    finally:
        os.unlink(path)


def _aoef(payload):
    return {"version": "1.1.0", "created_on": T0S, "data": payload}


def _num(x, enc):
    """How a number travels: as a number or as the numeric string python prints for it."""
    if x is None:
        return None
    return repr(x) if enc == "str" else x


# ================================================================= kind "ce": clip evaluations
def _pairing_clips(pairing):
    a = _clip(CLIP_ID["A"])
    if pairing == "same":
        return a, a
    if pairing == "copy":
        return a, _clip(CLIP_ID["A"])
    if pairing == "copy_features":        # same clip, enriched later: same uuid, still that clip
        return a, _clip(CLIP_ID["A"], enriched=1)
    if pairing == "copy_rec_tag":
        return a, _clip(CLIP_ID["A"], enriched=2)
    if pairing == "twin":                 # another clip (another uuid) over the very same span of the same recording
        return a, _clip(CLIP_ID["B"])
    if pairing == "diff_times":
        return a, _clip(CLIP_ID["B"], start=20.0, end=30.0)
    if pairing == "diff_rec":
        return a, _clip(CLIP_ID["B"], rec=REC2)
    raise ValueError(pairing)


def _ce_stored(ce, share=None):
    if ce is None:
        return {"same_clip": False, "anns": [], "preds": [], "ms": []}
    ann_of = {U(ANN_ID + k): k for k in range(1, K + 1)}
    pred_of = {_pred_uuid(k, share): k for k in range(1, K + 1)}      # per side: a prediction is looked up among predictions
    return {"same_clip": ce.annotations.clip.uuid == ce.predictions.clip.uuid,
            "anns": [ann_of.get(a.uuid, 9) for a in ce.annotations.sound_events],
            "preds": [pred_of.get(p.uuid, 9) for p in ce.predictions.sound_events],
            "ms": [[0 if m.source is None else pred_of.get(m.source.uuid, 9),
                    0 if m.target is None else ann_of.get(m.target.uuid, 9)] for m in ce.matches]}


def _ce(case):
    na, np_, ms, pairing = case["na"], case["np"], case["ms"], case["pairing"]
    ase, pse = case.get("ase"), case.get("pse")        # which sound event each annotation / prediction wraps
    pu = case.get("pu")                                # predictions that carry the uuid of an annotation
    # the sound_events lists as written: annotation / prediction numbers in listed order; a number may occur twice
    # (rc False: the very same object is listed twice; True: an equal copy of it)
    al = case.get("al", list(range(1, na + 1)))
    pl = case.get("pl", list(range(1, np_ + 1)))
    rc = case.get("rc", False)

    def listed(numbers, make):
        if rc:                                         # every entry built separately: repeats are equal copies
            return [make(k) for k in numbers]
        made = {}
        return [made.setdefault(k, make(k)) for k in numbers]      # repeats are the very same object

    def parts():
        ca_clip, cp_clip = _pairing_clips(pairing)
        ca = data.ClipAnnotation(uuid=U(0x60), clip=ca_clip, sound_events=listed(al, lambda k: _ann(k, ase)), created_on=T0)
        cp = data.ClipPrediction(uuid=U(0x61), clip=cp_clip, sound_events=listed(pl, lambda k: _pred(k, pse, pu)))
        return ca, cp

    def ctor():
        ca, cp = parts()
        matches = [data.Match(uuid=U(MATCH_ID + i), source=_pred(s, pse, pu) if s else None, target=_ann(t, ase) if t else None,
                              affinity=0.5) for i, (s, t) in enumerate(ms)]
        return data.ClipEvaluation(uuid=U(0x70), annotations=ca, predictions=cp, matches=matches)

    def as_dict(mode):
        ca, cp = parts()
        dump = (lambda o: o.model_dump(mode="json")) if mode == "json" else (lambda o: o.model_dump())
        md = []
        for i, (s, t) in enumerate(ms):
            m = {"uuid": str(U(MATCH_ID + i)) if mode == "json" else U(MATCH_ID + i), "affinity": 0.5}
            if mode == "json":                       # JSON path: absent sides are explicit nulls
                m["source"] = dump(_pred(s, pse, pu)) if s else None
                m["target"] = dump(_ann(t, ase)) if t else None
            else:                                    # dict path: absent sides are simply missing
                if s:
                    m["source"] = dump(_pred(s, pse, pu))
                if t:
                    m["target"] = dump(_ann(t, ase))
            md.append(m)
        return {"uuid": str(U(0x70)), "annotations": dump(ca), "predictions": dump(cp), "matches": md}

    def aoef():
        clipA = {"uuid": str(U(CLIP_ID["A"])), "recording": str(U(1)), "start_time": 0.0, "end_time": 10.0}
        clips, recs = [clipA], [REC_DOC]
        pred_clip = str(U(CLIP_ID["A"]))
        if pairing == "copy":                         # the same clip written down a second time
            clips.append(dict(clipA))
        elif pairing == "copy_features":              # ... a second time, enriched (the registry keeps one clip per uuid)
            clips.append(dict(clipA, features={"snr": 1.5}))
        elif pairing == "copy_rec_tag":
            recs.append(dict(REC_DOC, tags=[0]))
            clips.append(dict(clipA))
        elif pairing == "twin":
            clips.append(dict(clipA, uuid=str(U(CLIP_ID["B"]))))
            pred_clip = str(U(CLIP_ID["B"]))
        elif pairing == "diff_times":
            clips.append({"uuid": str(U(CLIP_ID["B"])), "recording": str(U(1)), "start_time": 20.0, "end_time": 30.0})
            pred_clip = str(U(CLIP_ID["B"]))
        elif pairing == "diff_rec":
            recs.append(REC2_DOC)
            clips.append({"uuid": str(U(CLIP_ID["B"])), "recording": str(U(2)), "start_time": 0.0, "end_time": 10.0})
            pred_clip = str(U(CLIP_ID["B"]))
        doc = {
            "uuid": str(U(0x80)), "collection_type": "evaluation", "created_on": T0S, "evaluation_task": "t",
            "tags": [TAG_DOC], "recordings": recs, "clips": clips,
            "sound_events": [{"uuid": str(U(SE_ID + k)), "recording": str(U(1)),
                              "geometry": {"type": "TimeInterval", "coordinates": [1.0, 2.0]}} for k in range(1, 2 * K + 1)],
            "sound_event_annotations": [{"uuid": str(U(ANN_ID + k)), "sound_event": str(U(SE_ID + _wrapped(ase, k))), "created_on": T0S}
                                        for k in range(1, K + 1)],
            "clip_annotations": [{"uuid": str(U(0x60)), "clip": str(U(CLIP_ID["A"])), "created_on": T0S,
                                  "sound_events": [str(U(ANN_ID + k)) for k in al]}],
            "sound_event_predictions": [{"uuid": str(_pred_uuid(k, pu)), "sound_event": str(U(SE_ID + K + _wrapped(pse, k))), "score": 0.5}
                                        for k in range(1, K + 1)],
            "clip_predictions": [{"uuid": str(U(0x61)), "clip": pred_clip,
                                  "sound_events": [str(_pred_uuid(k, pu)) for k in pl]}],
            "matches": [dict({"uuid": str(U(MATCH_ID + i)), "affinity": 0.5},
                             **({"source": str(_pred_uuid(s, pu))} if s else {}),
                             **({"target": str(U(ANN_ID + t))} if t else {})) for i, (s, t) in enumerate(ms)],
            "clip_evaluations": [{"uuid": str(U(0x70)), "annotations": str(U(0x60)), "predictions": str(U(0x61)),
                                  "matches": [str(U(MATCH_ID + i)) for i in range(len(ms))]}],
        }
        ev = _load_doc(_aoef(doc))
        got = [ce for ce in ev.clip_evaluations if ce.uuid == U(0x70)]
        if len(got) != 1:
            raise LookupError("clip evaluation not in the loaded evaluation")
        return got[0]

    mp = case.get("mp", "dict")

    def in_guise(d):       # the top-level mapping and every nested match mapping in the guise of the case
        d = dict(d, matches=[_as_mapping(m, mp) for m in d["matches"]])
        return _as_mapping(d, mp)

    fns = {"ctor": ctor,
           "dict": lambda: data.ClipEvaluation.model_validate(in_guise(as_dict("python"))),
           "json": lambda: data.ClipEvaluation.model_validate_json(json.dumps(as_dict("json"))),
           "aoef": aoef}
    out = []
    for p in PATHS:
        obj, exc = _attempt(fns[p])
        out.append({"path": p, "built": obj is not None, "exc": exc, "stored": _ce_stored(obj, pu)})
    return out


# ================================================================= kind "match": a single match
def _match(case):
    s, t = case["s"], case["t"]

    def stored(m):
        if m is None:
            return {"s": 0, "t": 0}
        return {"s": 0 if m.source is None else 1, "t": 0 if m.target is None else 1}

    def as_dict(mode):
        dump = (lambda o: o.model_dump(mode="json")) if mode == "json" else (lambda o: o.model_dump())
        m = {"affinity": 0.5}
        if mode == "json":
            m["source"] = dump(_pred(1)) if s else None
            m["target"] = dump(_ann(1)) if t else None
        else:
            if s:
                m["source"] = dump(_pred(1))
            if t:
                m["target"] = dump(_ann(1))
        return m

    def aoef():
        # the match sits in a clip evaluation whose annotation / prediction lists hold exactly the sides it names,
        # so the document is loadable whenever the match itself is
        doc = {"uuid": str(U(0x80)), "collection_type": "evaluation", "created_on": T0S, "evaluation_task": "t",
               "recordings": [REC_DOC],
               "clips": [{"uuid": str(U(0x10)), "recording": str(U(1)), "start_time": 0.0, "end_time": 10.0}],
               "sound_events": [{"uuid": str(U(SE_ID + k)), "recording": str(U(1)),
                                 "geometry": {"type": "TimeInterval", "coordinates": [1.0, 2.0]}} for k in (1, K + 1)],
               "sound_event_annotations": [{"uuid": str(U(ANN_ID + 1)), "sound_event": str(U(SE_ID + 1)), "created_on": T0S}],
               "sound_event_predictions": [{"uuid": str(U(PRED_ID + 1)), "sound_event": str(U(SE_ID + K + 1)), "score": 0.5}],
               "clip_annotations": [{"uuid": str(U(0x60)), "clip": str(U(0x10)), "created_on": T0S,
                                     "sound_events": [str(U(ANN_ID + 1))] if t else []}],
               "clip_predictions": [{"uuid": str(U(0x61)), "clip": str(U(0x10)),
                                     "sound_events": [str(U(PRED_ID + 1))] if s else []}],
               "matches": [dict({"uuid": str(U(MATCH_ID)), "affinity": 0.5},
                                **({"source": str(U(PRED_ID + 1))} if s else {}),
                                **({"target": str(U(ANN_ID + 1))} if t else {}))],
               "clip_evaluations": [{"uuid": str(U(0x70)), "annotations": str(U(0x60)), "predictions": str(U(0x61)),
                                     "matches": [str(U(MATCH_ID))]}]}
        ev = _load_doc(_aoef(doc))
        got = [m for ce in ev.clip_evaluations for m in ce.matches if m.uuid == U(MATCH_ID)]
        if len(got) != 1:
            raise LookupError("match not in the loaded evaluation")
        return got[0]

    fns = {"ctor": lambda: data.Match(source=_pred(1) if s else None, target=_ann(1) if t else None, affinity=0.5),
           "dict": lambda: data.Match.model_validate(_as_mapping(as_dict("python"), case.get("mp", "dict"))),
           "json": lambda: data.Match.model_validate_json(json.dumps(as_dict("json"))),
           "aoef": aoef}
    out = []
    for p in PATHS:
        obj, exc = _attempt(fns[p])
        out.append({"path": p, "built": obj is not None, "exc": exc, "stored": stored(obj)})
    return out


# ================================================================= kind "project": annotation projects
def _project(case):
    tseq, aseq = case["tseq"], case["aseq"]     # clips (1..3) of the tasks / of the clip annotations, in listed order;
    #                                             a clip may occur twice in aseq (two clip annotations of one clip)
    enr = case.get("enr", [0, 0, 0])       # the task's and the annotation's copies of clip k differ in non-identity content
    clip_ids = [0x10, 0x11, 0x12]

    def stored(p):
        if p is None:
            return {"task": [], "ann": []}
        idx = {U(c): k + 1 for k, c in enumerate(clip_ids)}
        return {"task": [idx.get(t.clip.uuid, 9) for t in p.tasks],
                "ann": [idx.get(a.clip.uuid, 9) for a in p.clip_annotations]}

    def parts():
        cas = [data.ClipAnnotation(uuid=U(0x60 + i), clip=_clip(clip_ids[k - 1], enriched=(2 if enr[k - 1] == 2 else 0)),
                                   created_on=T0) for i, k in enumerate(aseq)]
        tks = [data.AnnotationTask(uuid=U(0x90 + i), clip=_clip(clip_ids[k - 1], enriched=(1 if enr[k - 1] == 1 else 0)),
                                   created_on=T0) for i, k in enumerate(tseq)]
        return cas, tks

    def as_dict(mode):
        cas, tks = parts()
        dump = (lambda o: o.model_dump(mode="json")) if mode == "json" else (lambda o: o.model_dump())
        return {"name": "p", "clip_annotations": [dump(c) for c in cas], "tasks": [dump(t) for t in tks]}

    def aoef():
        doc = {"uuid": str(U(0x81)), "collection_type": "annotation_project", "created_on": T0S, "name": "p",
               "recordings": [REC_DOC],
               "clips": [{"uuid": str(U(c)), "recording": str(U(1)), "start_time": 0.0, "end_time": 10.0} for c in clip_ids],
               "clip_annotations": [{"uuid": str(U(0x60 + i)), "clip": str(U(clip_ids[k - 1])), "created_on": T0S}
                                    for i, k in enumerate(aseq)],
               "tasks": [{"uuid": str(U(0x90 + i)), "clip": str(U(clip_ids[k - 1])), "created_on": T0S}
                         for i, k in enumerate(tseq)]}
        p = _load_doc(_aoef(doc))
        if not isinstance(p, data.AnnotationProject):
            raise LookupError("not an annotation project")
        return p

    def ctor():
        cas, tks = parts()
        return data.AnnotationProject(name="p", clip_annotations=cas, tasks=tks)

    fns = {"ctor": ctor,
           "dict": lambda: data.AnnotationProject.model_validate(as_dict("python")),
           "json": lambda: data.AnnotationProject.model_validate_json(json.dumps(as_dict("json"))),
           "aoef": aoef}
    out = []
    for p in PATHS:
        obj, exc = _attempt(fns[p])
        out.append({"path": p, "built": obj is not None, "exc": exc, "stored": stored(obj)})
    return out


# ================================================================= kind "clip": start / end ordering
UNITS = [1.0, 0.25]


def _clip_case(case):
    unit = UNITS[case["u"] - 1]
    enc = case["enc"]
    st, en = case["st"] * unit, case["en"] * unit

    def one(x, side):
        if enc == "int":
            if not float(x).is_integer():
                raise ValueError("int encoding needs an integer value")
            return int(x)
        if enc == "str" or (enc == "str_num" and side == 0) or (enc == "num_str" and side == 1):
            return repr(int(x)) if float(x).is_integer() and case["u"] == 1 else repr(x)
        return x

    a, b = one(st, 0), one(en, 1)

    def stored(c):
        if c is None:
            return {"st": [], "en": []}
        return {"st": [limbs(c.start_time / unit)], "en": [limbs(c.end_time / unit)]}

    def aoef():
        doc = {"uuid": str(U(0x82)), "collection_type": "annotation_set", "created_on": T0S,
               "recordings": [REC_DOC],
               "clips": [{"uuid": str(U(0x10)), "recording": str(U(1)), "start_time": a, "end_time": b}],
               "clip_annotations": [{"uuid": str(U(0x60)), "clip": str(U(0x10)), "created_on": T0S}]}
        s = _load_doc(_aoef(doc))
        got = [ca.clip for ca in s.clip_annotations if ca.clip.uuid == U(0x10)]
        if len(got) != 1:
            raise LookupError("clip not in the loaded annotation set")
        return got[0]

    fns = {"ctor": lambda: data.Clip(recording=REC, start_time=a, end_time=b),
           "dict": lambda: data.Clip.model_validate(_as_mapping({"recording": REC.model_dump(), "start_time": a, "end_time": b},
                                                                case.get("mp", "dict"))),
           "json": lambda: data.Clip.model_validate_json(json.dumps(
               {"recording": REC.model_dump(mode="json"), "start_time": a, "end_time": b})),
           "aoef": aoef}
    out = []
    for p in PATHS:
        obj, exc = _attempt(fns[p])
        out.append({"path": p, "built": obj is not None, "exc": exc, "stored": stored(obj)})
    return out


# ================================================================= kind "score": bounded fields
EPS0 = 5e-324                                  # smallest positive double
SCORE_VALUES = {
    "-eps": -EPS0, "-0": -0.0, "0": 0.0, "eps": EPS0, "half": 0.5,
    "1-eps": math.nextafter(1.0, 0.0), "1": 1.0, "1+eps": math.nextafter(1.0, 2.0),
    "nan": float("nan"), "inf": float("inf"), "none": None,
}
FIELDS = ["PredictedTag.score", "SoundEventPrediction.score", "SequencePrediction.score",
          "Match.affinity", "Match.score", "ClipEvaluation.score", "Evaluation.score"]


def _score(case):
    field, enc = case["field"], case["enc"]
    x = SCORE_VALUES[case["v"]]
    val = _num(x, enc)
    absent = x is None

    def kw(name):
        return {} if absent else {name: val}

    def stored(v):
        if v is None:
            return {"built_none": False, "v": []}
        got = v[0]
        return {"built_none": got is None, "v": [] if got is None else [limbs(got)]}

    def seq():
        return data.Sequence(uuid=U(0xA0), sound_events=[_se(4)])

    sides = case.get("sides", "both")       # which sides the match carrying the number has

    def ends(conv):
        d = {}
        if sides in ("both", "source"):
            d["source"] = conv(_pred(1))
        if sides in ("both", "target"):
            d["target"] = conv(_ann(1))
        return d

    # ---- constructors
    def ctor():
        if field == "PredictedTag.score":
            return [data.PredictedTag(tag=TAG, **kw("score")).score]
        if field == "SoundEventPrediction.score":
            return [data.SoundEventPrediction(sound_event=_se(4), **kw("score")).score]
        if field == "SequencePrediction.score":
            return [data.SequencePrediction(sequence=seq(), **kw("score")).score]
        if field == "Match.affinity":
            return [data.Match(**ends(lambda o: o), **kw("affinity")).affinity]
        if field == "Match.score":
            return [data.Match(**ends(lambda o: o), affinity=0.5, **kw("score")).score]
        if field == "ClipEvaluation.score":
            a = _clip(0x10)
            return [data.ClipEvaluation(annotations=data.ClipAnnotation(clip=a), predictions=data.ClipPrediction(clip=a),
                                        **kw("score")).score]
        if field == "Evaluation.score":
            return [data.Evaluation(evaluation_task="t", **kw("score")).score]
        raise ValueError(field)

    # ---- dict / JSON validation
    def model_and_dict(mode):
        dump = (lambda o: o.model_dump(mode="json")) if mode == "json" else (lambda o: o.model_dump())
        if field == "PredictedTag.score":
            return data.PredictedTag, dict({"tag": dump(TAG)}, **kw("score")), "score"
        if field == "SoundEventPrediction.score":
            return data.SoundEventPrediction, dict({"sound_event": dump(_se(4))}, **kw("score")), "score"
        if field == "SequencePrediction.score":
            return data.SequencePrediction, dict({"sequence": dump(seq())}, **kw("score")), "score"
        if field == "Match.affinity":
            return data.Match, dict(ends(dump), **kw("affinity")), "affinity"
        if field == "Match.score":
            return data.Match, dict(ends(dump), affinity=0.5, **kw("score")), "score"
        if field == "ClipEvaluation.score":
            a = _clip(0x10)
            return (data.ClipEvaluation,
                    dict({"annotations": dump(data.ClipAnnotation(clip=a)), "predictions": dump(data.ClipPrediction(clip=a))},
                         **kw("score")), "score")
        if field == "Evaluation.score":
            return data.Evaluation, dict({"evaluation_task": "t"}, **kw("score")), "score"
        raise ValueError(field)

    def via_dict():
        cls, d, attr = model_and_dict("python")
        return [getattr(cls.model_validate(d), attr)]

    def via_json():
        cls, d, attr = model_and_dict("json")
        return [getattr(cls.model_validate_json(json.dumps(d, allow_nan=True)), attr)]

    # ---- AOEF: one evaluation document holding one object of every kind; the case sets one number in it
    def aoef():
        def put(name, f, default):
            if field != f:
                return {name: default} if default is not None else {}
            return {} if absent else {name: val}
        tagscore = 0.25 if field != "PredictedTag.score" else val
        sep = dict({"uuid": str(U(PRED_ID + 1)), "sound_event": str(U(SE_ID + 4))},
                   **put("score", "SoundEventPrediction.score", 0.5))
        if not (field == "PredictedTag.score" and absent):
            sep["tags"] = [[0, tagscore]]
        doc = {"uuid": str(U(0x80)), "collection_type": "evaluation", "created_on": T0S, "evaluation_task": "t",
               "tags": [TAG_DOC], "recordings": [REC_DOC],
               "clips": [{"uuid": str(U(0x10)), "recording": str(U(1)), "start_time": 0.0, "end_time": 10.0}],
               "sound_events": [{"uuid": str(U(SE_ID + k)), "recording": str(U(1)),
                                 "geometry": {"type": "TimeInterval", "coordinates": [1.0, 2.0]}} for k in (1, 4)],
               "sequences": [{"uuid": str(U(0xA0)), "sound_events": [str(U(SE_ID + 4))]}],
               "sound_event_annotations": [{"uuid": str(U(ANN_ID + 1)), "sound_event": str(U(SE_ID + 1)), "created_on": T0S}],
               "clip_annotations": [{"uuid": str(U(0x60)), "clip": str(U(0x10)), "created_on": T0S,
                                     "sound_events": [str(U(ANN_ID + 1))] if sides in ("both", "target") else []}],
               "sound_event_predictions": [sep],
               "sequence_predictions": [dict({"uuid": str(U(0xA1)), "sequence": str(U(0xA0))},
                                             **put("score", "SequencePrediction.score", 0.5))],
               "clip_predictions": [{"uuid": str(U(0x61)), "clip": str(U(0x10)),
                                     "sound_events": [str(U(PRED_ID + 1))] if sides in ("both", "source") else [],
                                     "sequences": [str(U(0xA1))]}],
               "matches": [dict({"uuid": str(U(MATCH_ID))},
                                **({"source": str(U(PRED_ID + 1))} if sides in ("both", "source") else {}),
                                **({"target": str(U(ANN_ID + 1))} if sides in ("both", "target") else {}),
                                **put("affinity", "Match.affinity", 0.5), **put("score", "Match.score", None))],
               "clip_evaluations": [dict({"uuid": str(U(0x70)), "annotations": str(U(0x60)), "predictions": str(U(0x61)),
                                          "matches": [str(U(MATCH_ID))]}, **put("score", "ClipEvaluation.score", None))]}
        doc.update(put("score", "Evaluation.score", None))
        ev = _load_doc(_aoef(doc))
        ce = ev.clip_evaluations[0]
        if field == "PredictedTag.score":
            tags = ce.predictions.sound_events[0].tags
            return [tags[0].score] if tags else [None]
        if field == "SoundEventPrediction.score":
            return [ce.predictions.sound_events[0].score]
        if field == "SequencePrediction.score":
            return [ce.predictions.sequences[0].score]
        if field == "Match.affinity":
            return [ce.matches[0].affinity]
        if field == "Match.score":
            return [ce.matches[0].score]
        if field == "ClipEvaluation.score":
            return [ce.score]
        return [ev.score]

    fns = {"ctor": ctor, "dict": via_dict, "json": via_json, "aoef": aoef}
    out = []
    for p in PATHS:
        obj, exc = _attempt(fns[p])
        out.append({"path": p, "built": obj is not None, "exc": exc, "stored": stored(obj)})
    return out


KINDS = {"ce": _ce, "match": _match, "project": _project, "clip": _clip_case, "score": _score}


def execute(case):
    return {"paths": KINDS[case["kind"]](case)}


def random_cases(rng, tier):
    """Clip evaluations over a larger universe than TLC enumerates: up to 4 annotations x 4 predictions, match lists of up
    to 9 entries obtained by disturbing a valid arrangement (or not).  Judged by the same SchemaRel!Valid."""
    n = 250 if tier == "quick" else 2500
    for _ in range(n):
        na, np_ = rng.randrange(0, 5), rng.randrange(0, 5)
        anns, preds = list(range(1, na + 1)), list(range(1, np_ + 1))
        rng.shuffle(anns)
        rng.shuffle(preds)
        paired = rng.randrange(0, min(na, np_) + 1)
        ms = [[preds[i], anns[i]] for i in range(paired)] + [[p, 0] for p in preds[paired:]] + [[0, a] for a in anns[paired:]]
        rng.shuffle(ms)
        for _ in range(rng.choice([0, 0, 1, 1, 2])):            # disturbances
            kind = rng.randrange(6)
            if kind == 0 and ms:
                ms.pop(rng.randrange(len(ms)))                   # something stays unmatched
            elif kind == 1 and ms:
                ms.insert(rng.randrange(len(ms) + 1), list(rng.choice(ms)))   # duplicate
            elif kind == 2:
                ms.append([rng.choice([0, 5, 6]), rng.choice([5, 6])])        # foreign target
            elif kind == 3:
                ms.append([rng.choice([5, 6]), 0])                             # foreign source
            elif kind == 4:
                ms.append([0, 0])                                              # match without sides
            elif ms:
                i = rng.randrange(len(ms))
                ms[i] = [ms[i][0], 0] if ms[i][0] else [0, ms[i][1]]           # one side dropped (no-op if one-sided)
        pairing = rng.choice(["same", "same", "same", "copy", "copy_features", "copy_rec_tag", "twin", "diff_times", "diff_rec"])
        ase, pse = list(range(1, K + 1)), list(range(1, K + 1))
        for wrap in (ase, pse):                                  # some annotations / predictions share a sound event
            for _ in range(rng.choice([0, 0, 1, 2])):
                wrap[rng.randrange(K)] = rng.randrange(1, K + 1)
        pu = [0] * K                                             # some predictions carry the uuid of an annotation
        for j in rng.sample(range(1, K + 1), rng.choice([0, 0, 1, 2])):
            pu[rng.randrange(K)] = j
        if len({j for j in pu if j}) < len([j for j in pu if j]):
            pu = [0] * K                                         # two predictions must not share one uuid
        al, pl = list(range(1, na + 1)), list(range(1, np_ + 1))
        for lst in (al, pl):                                     # a list that holds one of its events twice
            if lst and rng.random() < 0.25:
                lst.insert(rng.randrange(len(lst) + 1), rng.choice(lst))
        yield {"kind": "ce", "na": na, "np": np_, "ms": ms[:9], "pairing": pairing, "ase": ase, "pse": pse, "pu": pu,
               "al": al, "pl": pl, "rc": rng.random() < 0.5}


# ----------------------------------------------------------------- cases also executed under `python -O`
_CE0 = {"kind": "ce", "ase": [1, 2, 3], "pse": [1, 2, 3], "pu": [0, 0, 0], "rc": False, "mp": "dict", "opt": 1}


def _opt_ce(na, np_, ms, pairing):
    return dict(_CE0, na=na, np=np_, ms=ms, pairing=pairing, al=list(range(1, na + 1)), pl=list(range(1, np_ + 1)))


OPT_CASES = [     # one valid and one invalid case per condition of the statement
    _opt_ce(1, 1, [[1, 1]], "same"), _opt_ce(1, 1, [[1, 1]], "copy"),                      # same clip
    _opt_ce(1, 1, [[1, 1]], "diff_times"), _opt_ce(1, 1, [[1, 1]], "diff_rec"), _opt_ce(0, 0, [], "twin"),
    _opt_ce(2, 1, [[1, 1], [0, 2]], "same"), _opt_ce(2, 1, [[1, 1]], "same"),              # every event exactly once
    _opt_ce(1, 1, [[1, 1], [1, 0]], "same"), _opt_ce(1, 0, [[0, 3]], "same"), _opt_ce(0, 0, [[0, 0]], "same"),
    {"kind": "match", "s": 1, "t": 0, "mp": "dict", "opt": 1}, {"kind": "match", "s": 0, "t": 0, "mp": "dict", "opt": 1},
    {"kind": "project", "tseq": [1, 2], "aseq": [2, 1], "enr": [0, 0, 0], "opt": 1},
    {"kind": "project", "tseq": [1], "aseq": [2], "enr": [0, 0, 0], "opt": 1},
    {"kind": "clip", "st": 5, "en": 10, "u": 1, "enc": "str", "mp": "dict", "opt": 1},
    {"kind": "clip", "st": 10, "en": 9, "u": 1, "enc": "num", "mp": "dict", "opt": 1},
] + [{"kind": "score", "field": f, "v": v, "enc": "num", "opt": 1}
     for f in FIELDS[:6] for v in ("half", "1+eps")] + [
    {"kind": "score", "field": "Match.affinity", "v": "1+eps", "enc": "num", "sides": "source", "opt": 1}]


def _execute_all(cases):
    return [execute(c) for c in cases]


def extra_observations(work, tier, seed):
    """The same clauses with the library run by an optimising interpreter (python -O: assert statements are compiled
    away, __debug__ is False).  The cases are executed in a child interpreter and shipped as ordinary observations."""
    import subprocess
    import sys
    from pathlib import Path
    from vt.engine import Machinery
    root = Path(__file__).resolve().parent.parent
    f = Path(work) / "optimised_cases.json"
    f.write_text(json.dumps(OPT_CASES))
    env = dict(os.environ)
    env["PYTHONPATH"] = os.pathsep.join(x for x in [os.environ.get("VERIF_SRC", ""), str(root), os.environ.get("PYTHONPATH", "")] if x)
    env.pop("PYTHONOPTIMIZE", None)
    p = subprocess.run([sys.executable, "-O", "-c",
                        "import json,sys; sys.exit(7) if __debug__ else None; from checks import c04; "
                        "print(json.dumps(c04._execute_all(json.load(open(sys.argv[1])))))", str(f)],
                       capture_output=True, text=True, env=env, cwd=str(root), timeout=600)
    if p.returncode != 0:
        raise Machinery("child interpreter (python -O) for the optimised C04 cases failed: " + p.stderr[-400:])
    outs = json.loads(p.stdout.strip().splitlines()[-1])
    if len(outs) != len(OPT_CASES):
        raise Machinery("child interpreter returned a wrong number of results")
    for c, o in zip(OPT_CASES, outs):
        yield {"src": "optimised", "in": c, "out": o}


def finding_key(obs, clause):
    c = obs["in"]
    detail = {"clip": lambda: c["enc"], "score": lambda: c["field"], "ce": lambda: c["pairing"]}.get(c["kind"], lambda: "")()
    return f"{clause}/{c['kind']}/{detail}".rstrip("/")


def nontrivial(o):
    return True


def evidence_extra():
    """Evaluation.score: observed, not judged (no bound in data/evaluations.py, file not among the anchors)."""
    seen = {}
    for v in ("-eps", "half", "1+eps", "inf", "nan"):
        built = [p["built"] for p in _score({"kind": "score", "field": "Evaluation.score", "v": v, "enc": "num"})]
        seen[v] = built
    return {"observed_not_judged": {"Evaluation.score built through [ctor, dict, json, aoef]": seen}}


MANIFEST = {
    "text": ("SchemaRel.tla states Valid (same clip; every annotated and predicted event matched exactly once, nothing foreign, "
             "no match without sides; annotated clips have tasks; start <= end; scores in [0,1]) and what a built object may "
             "store; MC_SchemaRel.tla transcribes the validators of soundevent.data step by step (before/after mode, list-vs-set "
             "duplicate tests, set comparisons, ge/le with NaN) and TLC proves accepted <=> Valid for every enumerated "
             "arrangement -- including annotations / predictions that wrap one and the same sound event, predictions that carry "
             "an annotation's uuid, sound_events lists that hold an event twice, later-enriched copies of a clip (same uuid), another clip over the same "
             "span (not the same clip), and projects whose tasks and clip annotations are listed in every order with "
             "clips annotated twice -- and path (the as-found before-mode clip "
             "validator, a validator keyed on the wrapped sound event, a merged uuid pool, a multiset (Counter) comparison, deep clip equality, a same-span "
             "fall-through, a single-pass (generator) task lookup, a dict-only null-match test, an assert under -O and an AOEF loader resetting one-sided affinities are kept as controls with TLC's counterexamples); "
             "every case is then built through the constructor, model_validate, model_validate_json (numbers also as numeric "
             "strings) and a hand-written AOEF document loaded with io.load, and TLC validates ConstructIffValid, PathsAgree "
             "and StoredWithinBounds on what was built and stored; the dict path is also fed with other Mapping types and a "
             "representative subset is re-executed under python -O. Bounded-exhaustive plus random larger clip evaluations."),
    "note": ("trusted: TLC, binder checks/c04.py (builds inputs for four paths, reads stored values back); AOEF documents are "
             "self-contained; Evaluation.score is observed, not judged (no bound in the library, outside the anchors); held on "
             "the tree only with fix commit be663da (Clip after-validator) -- without it the check reports F4"),
    "design_ref": "DESIGN.md section 4 C04",
}
