"""Shared binder code for the AOEF registry properties (C01, C02, C18).

Encoders and generic reductions only -- no expected values, no verdicts:
  build_world   real pydantic objects from the graph description TLC exported (spec/Aoef.tla, World)
  gen_value     typed scalar generator driven by the live pydantic model_fields (a newly declared field is covered)
  diff          generic field-by-field walker over model_fields (terms reduced to their label)
  analyse_doc   definitions / references / parent positions of a written AOEF document, identifiers decoded to model ids
"""
from __future__ import annotations
import datetime, enum, hashlib, json, os, shutil, tempfile, typing, uuid
from pathlib import Path

from pydantic import BaseModel
from soundevent import data, io
try:
    from soundevent import _verif as _hooks
except Exception:  # hook module removed
    _hooks = None

ADAPTER_KIND = {"UserAdapter": "user", "TagAdapter": "tag", "RecordingAdapter": "recording", "ClipAdapter": "clip",
                "SoundEventAdapter": "sound_event", "SequenceAdapter": "sequence", "SoundEventAnnotationAdapter": "se_ann",
                "SequenceAnnotationAdapter": "seq_ann", "ClipAnnotationsAdapter": "clip_ann",
                "SoundEventPredictionAdapter": "se_pred", "SequencePredictionAdapter": "seq_pred",
                "ClipPredictionsAdapter": "clip_pred", "MatchAdapter": "match", "ClipEvaluationAdapter": "clip_eval",
                "AnnotationTaskAdapter": "task"}


class Machinery(Exception):
    """hook instrumentation missing or unreadable: a failure of the machinery, never a verdict"""


def hooks_enabled():
    return bool(_hooks is not None and getattr(_hooks, "ENABLED", False))


def read_events(path: Path, rev: dict):
    """Decode the hook events of one save+load into [e, k, o, n] records with model identifiers."""
    evs, tagname = [], {}
    if not path.exists():
        return evs
    for line in path.read_text().splitlines():
        r = json.loads(line)
        ev = r["ev"]
        if ev in ("begin", "end"):
            if ev == "end" and r.get("dir") == "save":
                evs.append({"e": "endsave", "k": "", "o": "", "n": 0})
            continue
        k = ADAPTER_KIND.get(r.get("adapter"), "?" + str(r.get("adapter")))
        o = ""
        if "id" in r:
            if k == "tag":
                if "key" in r and isinstance(r["key"], list):
                    tagname[r["id"]] = rev.get(tuple(r["key"]), f"?tag{r['id']}")
                o = tagname.get(r["id"], f"?tag{r['id']}")
            else:
                o = rev.get(str(r["id"]), "?" + str(r["id"])[:8])
        n = int(r["size"]) if "size" in r else (1 if r.get("hit") else 0)
        evs.append({"e": ev, "k": k, "o": o, "n": n})
    return evs

NS = uuid.UUID("6ba7b810-9dad-11d1-80b4-00c04fd430c8")
CTYPE_CLASS = {"recording_set": data.RecordingSet, "dataset": data.Dataset, "annotation_set": data.AnnotationSet,
               "annotation_project": data.AnnotationProject, "evaluation_set": data.EvaluationSet,
               "prediction_set": data.PredictionSet, "model_run": data.ModelRun, "evaluation": data.Evaluation}
DOC_LISTS = {"users": "user", "tags": "tag", "recordings": "recording", "clips": "clip", "sound_events": "sound_event",
             "sequences": "sequence", "sound_event_annotations": "se_ann", "sequence_annotations": "seq_ann",
             "clip_annotations": "clip_ann", "sound_event_predictions": "se_pred", "sequence_predictions": "seq_pred",
             "clip_predictions": "clip_pred", "matches": "match", "clip_evaluations": "clip_eval", "tasks": "task"}
KINDS = sorted(set(DOC_LISTS.values()))
# reference fields of the document schema: kind -> [(json path pattern, referenced kind)]
DOC_REFS = {
    "recording": [("tags[]", "tag"), ("owners[]", "user"), ("notes[].created_by", "user")],
    "clip": [("recording", "recording")],
    "sound_event": [("recording", "recording")],
    "sequence": [("sound_events[]", "sound_event"), ("parent", "sequence")],
    "se_ann": [("sound_event", "sound_event"), ("tags[]", "tag"), ("created_by", "user"), ("notes[].created_by", "user")],
    "seq_ann": [("sequence", "sequence"), ("tags[]", "tag"), ("created_by", "user"), ("notes[].created_by", "user")],
    "clip_ann": [("clip", "clip"), ("tags[]", "tag"), ("sound_events[]", "se_ann"), ("sequences[]", "seq_ann"),
                 ("notes[].created_by", "user")],
    "se_pred": [("sound_event", "sound_event"), ("tags[].0", "tag")],
    "seq_pred": [("sequence", "sequence"), ("tags[].0", "tag")],
    "clip_pred": [("clip", "clip"), ("sound_events[]", "se_pred"), ("sequences[]", "seq_pred"), ("tags[].0", "tag")],
    "match": [("source", "se_pred"), ("target", "se_ann")],
    "clip_eval": [("annotations", "clip_ann"), ("predictions", "clip_pred"), ("matches[]", "match")],
    "task": [("clip", "clip"), ("status_badges[].owner", "user")],
    "_top": [("project_tags[]", "tag"), ("evaluation_tags[]", "tag")],
}


def uid(model_id: str) -> uuid.UUID:
    return uuid.uuid5(NS, "verif:" + model_id)


def _h(*parts) -> int:
    return int(hashlib.sha1("|".join(map(str, parts)).encode()).hexdigest()[:12], 16)


# ----------------------------------------------------------------------------- scalar generation
FLOATS = [0.1, 1e-07, 123456.789, 0.30000000000000004, 2.5, 1 / 3, 5e-324, 1.7976931348623157e+308, 44100.0, 0.0]
STRS = ["plain", "Ünï©ødé ✓", "with space", "a/b\\c", "", "\"quoted\"", "line\nbreak", "日本語",
        # leading / trailing white space is part of the value (any trimming on the way to the document shows)
        "  padded both  ", "trailing ", "\tleading tab", " ",
        # text that is NOT in composed (NFC) form: e + U+0301, OHM SIGN, a + ring -- stored and loaded code point by code point
        "Cafe\u0301", "\u2126hm", "A\u030angstrom"]
GEOMS = [
    None,
    lambda: data.TimeStamp(coordinates=0.1),
    lambda: data.TimeInterval(coordinates=[0.25, 1.1]),
    lambda: data.Point(coordinates=[0.3, 1000.5]),
    lambda: data.LineString(coordinates=[[0.1, 100.0], [0.2, 3000.3], [0.7, 20.0]]),
    lambda: data.Polygon(coordinates=[[[0.0, 0.0], [1.5, 0.0], [1.5, 2000.0], [0.0, 0.0]], [[0.5, 100.0], [1.0, 100.0], [1.0, 500.0], [0.5, 100.0]]]),
    lambda: data.BoundingBox(coordinates=[0.1, 10.0, 0.9, 5000000.0]),
    lambda: data.MultiPoint(coordinates=[[0.1, 1.0], [0.0, 0.0]]),
    lambda: data.MultiLineString(coordinates=[[[0.1, 100.0], [0.2, 300.0]], [[1.0, 1.0], [3.0, 2.0]]]),
    lambda: data.MultiPolygon(coordinates=[[[[0.0, 0.0], [1.0, 0.0], [1.0, 1.0], [0.0, 0.0]]], [[[2.0, 2.0], [3.0, 2.0], [3.0, 3.0], [2.0, 2.0]]]]),
    # a line whose first and last vertices have the SAME time (a contour returning to its start time): already in normal form
    lambda: data.LineString(coordinates=[[0.5, 100.0], [0.9, 200.0], [0.5, 300.0]]),
    lambda: data.BoundingBox(coordinates=[1.0, 0.0, 1.0, 0.0]),
    # coordinates that need more than six decimals (any rounding on the way to the document shows)
    lambda: data.MultiLineString(coordinates=[[[1.0000001, 5.00000012], [1.0000004, 6.5]], [[2.25, 1234.5678901], [2.2500000001, 7.0]]]),
    lambda: data.Point(coordinates=[0.123456789012, 4999999.999999]),
]


def features(key, n):
    """n features with distinct labels; the first one is exactly 0.0 (a falsy but legal value), the second often -0.0 / tiny"""
    vals = [0.0] + [FLOATS[_h(key, "fv", i) % len(FLOATS)] for i in range(1, n)]
    return [data.Feature(term=data.term_from_key(f"feat_{i}_{_h(key, i) % 7}"), value=vals[i]) for i in range(n)]


def _strip_optional(ann):
    if typing.get_origin(ann) is typing.Union:
        args = [a for a in typing.get_args(ann) if a is not type(None)]
        if len(args) == 1:
            return args[0], True
        return ann, type(None) in typing.get_args(ann)
    return ann, False


def gen_value(cls, fname, finfo, key, present: bool):
    """A value for scalar field `fname` of `cls` (None = leave to the default)."""
    ann, optional = _strip_optional(finfo.annotation)
    required = finfo.is_required()
    if not required and not present:
        return None
    h = _h(key, fname, _SALT[0])       # salted by the case: an object id meets other values in other cases
    lo = hi = None
    for m in finfo.metadata:
        lo = getattr(m, "ge", lo)
        hi = getattr(m, "le", hi)
    if ann is float:
        if lo is not None or hi is not None:
            return [0.0, 1.0, 0.5, 0.123456789, 1e-12, 0.9999999999999999][h % 6]
        if fname in ("latitude", "longitude"):
            # incl. the closed ends of the legal ranges (latitude +-90, longitude +-180)
            return ([12.3456789, -45.0, 0.0, 89.999999, 90.0, -90.0] if fname == "latitude"
                    else [12.3456789, -45.0, 0.0, 180.0, -180.0, 179.9999999])[h % 6]
        if fname == "time_expansion":
            return [10.0, 0.5, 1.0, 2.5, 1.0000000000000002][h % 5]
        if fname == "duration":
            return [1.5, 60.0, 0.1, 3600.123][h % 4]
        return FLOATS[h % len(FLOATS)]
    if ann is int:
        return [1, 2, 44100, 8000, 384000][h % 5] if fname != "channels" else [1, 2, 4][h % 3]
    if ann is bool:
        return bool(h % 2)
    if ann is str:
        if fname == "email":
            return ["a@b.org", "first.last+tag@example.com"][h % 2]
        st = STRS[h % len(STRS)]
        return st + (f"-{fname}" if h % 3 and not st.endswith(" ") else "")
    if ann is uuid.UUID:
        return None
    if ann is datetime.datetime:
        base = datetime.datetime(2020 + h % 5, 1 + h % 12, 1 + h % 28, h % 24, h % 60, h % 60, h % 1000000)
        if h % 3 == 0:
            return base.replace(tzinfo=datetime.timezone.utc)
        if h % 7 == 0:   # an aware datetime with a non-UTC offset
            return base.replace(tzinfo=datetime.timezone(datetime.timedelta(hours=5, minutes=30)))
        return base
    if ann is datetime.date:
        return datetime.date(1999 + h % 30, 1 + h % 12, 1 + h % 28)
    if ann is datetime.time:
        return datetime.time(h % 24, h % 60, h % 60, h % 1000000)
    if ann is Path:
        return None
    if isinstance(ann, type) and issubclass(ann, enum.Enum):
        vals = list(ann)
        return vals[h % len(vals)]
    if "EmailStr" in str(ann):
        return ["a@b.org", "first.last+tag@example.com"][h % 2]
    return None  # unknown type: leave the default


def scalars(cls, key, pattern, skip=()):
    """kwargs for every scalar field of cls not in `skip`, by presence pattern min | max | alt."""
    out = {}
    names = [n for n in cls.model_fields if n not in skip and n != "uuid"]
    for i, n in enumerate(names):
        f = cls.model_fields[n]
        ann, _ = _strip_optional(f.annotation)
        if "Feature" in str(ann):
            k = 0 if pattern == "min" else (2 if pattern == "max" else (_h(key, n) % 2))
            if not f.is_required():
                out[n] = features(key + n, k)
            continue
        present = pattern == "max" or (pattern == "alt" and (i + _h(key)) % 2 == 0)
        v = gen_value(cls, n, f, key, present)
        if v is not None:
            out[n] = v
    return out


# ----------------------------------------------------------------------------- world -> real objects
GIVEN_PATHS = {}
_SUBCLASSES = {}
_SALT = [""]


def build_world(case, audio_root: Path):
    """Returns (collection object, {uuid/tagkey -> model id}, [recordings])."""
    pat = case.get("pattern", "max")
    place = case.get("place", "inside")
    objs, rev = {}, {}
    _SALT[0] = str(_h(case.get("ctype"), ",".join(sorted(map(str, case.get("sw", [])))), pat, len(case.get("objs", []))) % 1009)

    def note(n, key):
        kw = scalars(data.Note, key, pat, skip=("created_by",))
        kw.setdefault("message", "msg " + key)
        return data.Note(uuid=uid("note:" + key), created_by=objs[n["by"][0]] if n["by"] else None, **kw)

    def ptags(ids, key):
        return [data.PredictedTag(tag=objs[t], score=[0.0, 1.0, 0.25, 0.7][_h(key, t) % 4]) for t in ids]

    for d in case["objs"]:
        i, k = d["id"], d["kind"]
        u = uid(i)
        if k == "user":
            o = data.User(uuid=u, **scalars(data.User, i, pat))
        elif k == "tag":
            # distinct tags that share a key or a value with another tag (the registry keys tags by (label, value))
            n = int("".join(ch for ch in i if ch.isdigit()) or 0)
            # ... and two tags whose "label:value" spellings coincide although label and value differ (t1 / t3: the colon sits
            # at another place), one tag that differs from another only by surrounding blanks (t0 / t4)
            tkey = "key_" + "abbba"[n % 5] + str(n // 5) + (":x" if n % 5 == 3 else "")
            tval = ["v one", "x:v one", "va\u0308lue 2", "v one", " v one "][n % 5]       # the third value is decomposed (a + U+0308)
            # every tag's term has the SAME name and its own label: the document format identifies a tag by (label, value)
            o = data.Tag(term=data.Term(name="verif:shared_name", label=tkey, definition="shared name, own label"), value=tval)
            if n == 5 or n % 7 == 6:
                # a SIMPLE-LABEL term (exactly what term_from_key builds) whose label is also the label of a term of the
                # library's standard vocabulary (soundevent.terms): it must come back as the simple term it was
                tkey = ["Genus", "Country", "Family", "Accuracy"][(n // 5) % 4]
                o = data.Tag(term=data.term_from_key(tkey), value=tval)
            assert (tkey, tval) not in rev, "tag catalogue must be injective"
            rev[(tkey, tval)] = i
        elif k == "recording":
            base = {"inside": audio_root, "outside": audio_root.parent / "elsewhere",
                    "outside_prefix": Path(str(audio_root) + "_backup"),   # a sibling whose name merely starts like the directory
                    # a sibling whose name differs from the directory's only by letter case (another directory on a POSIX system)
                    "outside_case": audio_root.parent / audio_root.name.swapcase(),
                    # the audio directory is the current directory given as "." and the recording is given by an ABSOLUTE path that
                    # lies elsewhere (run_paths sets A = Path(".")): the empty component list of "." is a prefix of nothing absolute
                    "outside_cwd": Path(os.getcwd()).parent / "elsewhere abs"}[place]
            # same_path: every recording of the collection describes the SAME file (distinct uuids, one path) -- e.g. a direct and
            # a time-expanded description of one file; decided by the content of the case unless the case says so
            same = case.get("same_path", _h(case.get("ctype"), ",".join(sorted(map(str, case.get("sw", [])))), case.get("file")) % 4 == 0)
            p = base.joinpath(*case.get("dir", [])) / (("shared" if same else i) + "_" + case.get("file", "rec.wav"))
            GIVEN_PATHS[str(u)] = p          # the path as HANDED to the constructor (what "unchanged" refers to)
            kw = scalars(data.Recording, i, pat, skip=("path", "tags", "notes", "owners"))
            if "hash" in kw:
                kw["hash"] = "0123abcd-same-content"      # distinct recordings (uuid, path) holding byte-identical files share their content hash
            kw.setdefault("duration", 10.0); kw.setdefault("channels", 1); kw.setdefault("samplerate", 8000)
            o = data.Recording(uuid=u, path=p, tags=[objs[t] for t in d["tags"]],
                               notes=[note(n, f"{i}.n{j}") for j, n in enumerate(d["notes"])],
                               owners=[objs[x] for x in d["owners"]], **kw)
        elif k == "clip":
            kw = scalars(data.Clip, i, pat, skip=("recording", "start_time", "end_time"))
            st = [0.0, 0.5, 1.25][_h(i) % 3]
            o = data.Clip(uuid=u, recording=objs[d["recording"]], start_time=st, end_time=st + [0.0, 1.0, 3.3][_h(i, "e") % 3], **kw)
        elif k == "sound_event":
            # which geometry an event gets varies with the case (switch set), so every kind meets every position
            salt = ",".join(sorted(map(str, case.get("sw", [])))) + case["ctype"]
            g = GEOMS[_h(i, salt) % len(GEOMS)] if pat != "min" else GEOMS[(int("".join(ch for ch in i if ch.isdigit()) or 0) + _h(salt)) % len(GEOMS)]
            kw = scalars(data.SoundEvent, i, pat, skip=("recording", "geometry"))
            o = data.SoundEvent(uuid=u, recording=objs[d["recording"]], geometry=g() if g else None, **kw)
        elif k == "sequence":
            kw = scalars(data.Sequence, i, pat, skip=("parent", "sound_events"))
            o = data.Sequence(uuid=u, parent=objs[d["parent"][0]] if d["parent"] else None,
                              sound_events=[objs[x] for x in d["sound_events"]], **kw)
        elif k == "se_ann":
            kw = scalars(data.SoundEventAnnotation, i, pat, skip=("sound_event", "notes", "tags", "created_by"))
            o = data.SoundEventAnnotation(uuid=u, sound_event=objs[d["sound_event"]],
                                          notes=[note(n, f"{i}.n{j}") for j, n in enumerate(d["notes"])],
                                          tags=[objs[t] for t in d["tags"]],
                                          created_by=objs[d["by"][0]] if d["by"] else None, **kw)
        elif k == "seq_ann":
            kw = scalars(data.SequenceAnnotation, i, pat, skip=("sequence", "notes", "tags", "created_by"))
            o = data.SequenceAnnotation(uuid=u, sequence=objs[d["sequence"]],
                                        notes=[note(n, f"{i}.n{j}") for j, n in enumerate(d["notes"])],
                                        tags=[objs[t] for t in d["tags"]],
                                        created_by=objs[d["by"][0]] if d["by"] else None, **kw)
        elif k == "clip_ann":
            kw = scalars(data.ClipAnnotation, i, pat, skip=("clip", "sound_events", "sequences", "tags", "notes"))
            o = data.ClipAnnotation(uuid=u, clip=objs[d["clip"]], tags=[objs[t] for t in d["tags"]],
                                    sound_events=[objs[x] for x in d["sound_events"]],
                                    sequences=[objs[x] for x in d["sequences"]],
                                    notes=[note(n, f"{i}.n{j}") for j, n in enumerate(d["notes"])], **kw)
        elif k == "se_pred":
            kw = scalars(data.SoundEventPrediction, i, pat, skip=("sound_event", "tags"))
            o = data.SoundEventPrediction(uuid=u, sound_event=objs[d["sound_event"]], tags=ptags(d["tags"], i), **kw)
        elif k == "seq_pred":
            kw = scalars(data.SequencePrediction, i, pat, skip=("sequence", "tags"))
            o = data.SequencePrediction(uuid=u, sequence=objs[d["sequence"]], tags=ptags(d["tags"], i), **kw)
        elif k == "clip_pred":
            kw = scalars(data.ClipPrediction, i, pat, skip=("clip", "sound_events", "sequences", "tags"))
            o = data.ClipPrediction(uuid=u, clip=objs[d["clip"]], sound_events=[objs[x] for x in d["sound_events"]],
                                    sequences=[objs[x] for x in d["sequences"]], tags=ptags(d["tags"], i), **kw)
        elif k == "match":
            kw = scalars(data.Match, i, pat, skip=("source", "target"))
            kw.setdefault("affinity", 0.5)
            o = data.Match(uuid=u, source=objs[d["source"][0]] if d["source"] else None,
                           target=objs[d["target"][0]] if d["target"] else None, **kw)
        elif k == "clip_eval":
            kw = scalars(data.ClipEvaluation, i, pat, skip=("annotations", "predictions", "matches"))
            o = data.ClipEvaluation(uuid=u, annotations=objs[d["annotations"]], predictions=objs[d["predictions"]],
                                    matches=[objs[x] for x in d["matches"]], **kw)
        elif k == "task":
            kw = scalars(data.AnnotationTask, i, pat, skip=("clip", "status_badges"))
            badges = [data.StatusBadge(owner=objs[b["owner"][0]] if b["owner"] else None,
                                       **{**{"state": list(data.AnnotationState)[_h(i, j) % 4]},
                                          **scalars(data.StatusBadge, f"{i}.b{j}", pat, skip=("owner",))})
                      for j, b in enumerate(d["badges"])]
            o = data.AnnotationTask(uuid=u, clip=objs[d["clip"]], status_badges=badges, **kw)
        else:
            raise ValueError(k)
        objs[i] = o
        if k != "tag":
            rev[str(u)] = i

    ct, r = case["ctype"], case["roots"]
    cls = CTYPE_CLASS[ct]
    skip = ("recordings", "clip_annotations", "clip_predictions", "clip_evaluations", "annotation_tags", "evaluation_tags", "tasks")
    kw = scalars(cls, "root:" + ct, pat, skip=skip)
    if "name" in cls.model_fields:
        kw.setdefault("name", "the name")
    if ct == "evaluation":
        kw.setdefault("evaluation_task", "sound_event_detection")
    for f in r:
        kw[f] = [objs[x] for x in r[f]]
    root = cls(uuid=uid("root"), **kw)
    return root, rev, [o for i, o in objs.items() if isinstance(o, data.Recording)]


# ----------------------------------------------------------------------------- generic reductions
def diff(a, b, path="", out=None, limit=12):
    """Paths at which two object graphs differ, comparing every declared field (terms by label)."""
    out = [] if out is None else out
    if len(out) >= limit:
        return out
    if isinstance(a, data.Term) and isinstance(b, data.Term):
        if a.label != b.label:
            out.append(path + ".label")
        elif a == data.term_from_key(a.label) and b != a:
            out.append(path + ".simple_term")     # a simple-label term loses nothing when stored as its label
        return out
    if isinstance(a, BaseModel) or isinstance(b, BaseModel):
        if type(a) is not type(b):
            out.append(f"{path}:type({type(a).__name__}!={type(b).__name__})")
            return out
        for f in type(a).model_fields:
            diff(getattr(a, f), getattr(b, f), f"{path}.{f}" if path else f, out, limit)
        return out
    if isinstance(a, (list, tuple)) or isinstance(b, (list, tuple)):
        if not isinstance(a, (list, tuple)) or not isinstance(b, (list, tuple)) or len(a) != len(b):
            la = len(a) if isinstance(a, (list, tuple)) else -1
            lb = len(b) if isinstance(b, (list, tuple)) else -1
            out.append(f"{path}:len({la}!={lb})")
            return out
        for i, (x, y) in enumerate(zip(a, b)):
            diff(x, y, f"{path}[{i}]", out, limit)
        return out
    if isinstance(a, os.PathLike) or isinstance(b, os.PathLike):
        if Path(a) != Path(b):
            out.append(path)
        return out
    try:
        same = (a == b) and (type(a) is type(b) or isinstance(a, (int, float)) and isinstance(b, (int, float)))
    except Exception:
        same = False
    if not same:
        out.append(path)
    return out


def _walk(entry, pattern):
    """Yield the values found at a path pattern like 'notes[].created_by' or 'tags[].0'."""
    parts = pattern.split(".")
    cur = [entry]
    for p in parts:
        nxt = []
        many = p.endswith("[]")
        name = p[:-2] if many else p
        for c in cur:
            if c is None:
                continue
            if name.isdigit():
                v = c[int(name)] if isinstance(c, (list, tuple)) and len(c) > int(name) else None
            else:
                v = c.get(name) if isinstance(c, dict) else None
            if v is None:
                continue
            if many:
                nxt.extend(v)
            else:
                nxt.append(v)
        cur = nxt
    return cur


def analyse_doc(text: str, rev: dict):
    """defs / refs / parent positions of a written document, identifiers decoded through `rev`."""
    d = json.loads(text)["data"]
    unknown = {}

    def dec(kind, raw):
        if kind == "tag":
            return tagname.get(raw, f"?tag{raw}")
        s = str(raw)
        if s in rev:
            return rev[s]
        return unknown.setdefault(s, f"?{kind}{len(unknown) + 1}")

    tagname = {}
    for t in d.get("tags") or []:
        tagname[t["id"]] = rev.get((t["key"], t["value"]), f"?tag{t['id']}")
    defs = {k: [] for k in KINDS}
    refs, parents = [], []
    for lst, kind in DOC_LISTS.items():
        for e in d.get(lst) or []:
            ident = e["id"] if kind == "tag" else e["uuid"]
            defs[kind].append(dec(kind, ident))
    for lst, kind in DOC_LISTS.items():
        for n, e in enumerate(d.get(lst) or []):
            for pat, rk in DOC_REFS.get(kind, []):
                for v in _walk(e, pat):
                    refs.append([rk, dec(rk, v), f"{lst}[{n}].{pat}"])
    for pat, rk in DOC_REFS["_top"]:
        for v in _walk(d, pat):
            refs.append([rk, dec(rk, v), pat])
    seqs = d.get("sequences") or []
    pos = {s["uuid"]: n + 1 for n, s in enumerate(seqs)}
    for n, s in enumerate(seqs):
        if s.get("parent") is not None:
            parents.append([n + 1, pos.get(s["parent"], 0)])
    stored_paths = [r.get("path") for r in d.get("recordings") or []]
    return {"defs": defs, "refs": refs, "parents": parents}, stored_paths, d.get("collection_type", "?")


def doc_without_wrapper_time(text: str):
    j = json.loads(text)
    j.pop("created_on", None)
    return j


def json_diff(a, b, path="", out=None, limit=8):
    out = [] if out is None else out
    if len(out) >= limit:
        return out
    if type(a) is not type(b):
        out.append(path + ":type")
    elif isinstance(a, dict):
        for k in sorted(set(a) | set(b)):
            if k not in a or k not in b:
                out.append(f"{path}.{k}:missing")
            else:
                json_diff(a[k], b[k], f"{path}.{k}", out, limit)
    elif isinstance(a, list):
        if len(a) != len(b):
            out.append(f"{path}:len")
        else:
            for i, (x, y) in enumerate(zip(a, b)):
                json_diff(x, y, f"{path}[{i}]", out, limit)
    elif a != b:
        out.append(path)
    return out


def outcome_of(fn):
    try:
        return "", fn()
    except Exception as ex:
        return "raise:" + type(ex).__name__, None


def run_cycles(case, workdir: Path, subclass_ok: bool = False):
    """Save / load (fresh call) `cycles` times; returns the observation `out` for C01/C02."""
    tmp = Path(tempfile.mkdtemp(prefix="aoef_", dir=str(workdir)))
    cwd = os.getcwd()
    try:
        # audio "str": the directory (and with it every recording path) is RELATIVE to the working directory, and the
        # documents are written into another directory than the working directory; "path": absolute
        os.chdir(tmp)
        audio = Path("audio dir") if case.get("audio", "none") == "str" else tmp / "audio dir"
        root, rev, _recs = build_world(case, audio)
        if subclass_ok and _h(case.get("ctype"), ",".join(sorted(map(str, case.get("sw", [])))), "subclass") % 5 == 0:
            # the collection handed to save is an instance of a USER SUBCLASS of the collection class (it is saved as that
            # collection: same document, same objects; it loads as the collection class itself -- C02 only, C01 speaks of the
            # eight collection types themselves)
            base = type(root)
            sub = _SUBCLASSES.setdefault(base, type("My" + base.__name__, (base,), {}))
            root = sub(**{f: getattr(root, f) for f in base.model_fields})
        adir = {"none": None, "str": str(audio), "path": audio}[case.get("audio", "none")]
        cycles, cur, first_doc, traces = [], root, None, []
        for n in range(case.get("cycles", 1)):
            f = tmp / "docs" / f"c{n}.json"
            tf = tmp / f"trace{n}.ndjson"
            if hooks_enabled():
                os.environ["SOUNDEVENT_VERIF"] = str(tf)
            saved, _ = outcome_of(lambda: io.save(cur, f, audio_dir=adir))
            rec = {"saved": saved, "loaded": "", "type": "?", "diff": [], "docdiff": [],
                   "doc": {"defs": {k: [] for k in KINDS}, "refs": [], "parents": []}}
            if saved == "":
                text = f.read_text()
                rec["doc"], _, _ = analyse_doc(text, rev)
                dj = doc_without_wrapper_time(text)
                if first_doc is None:
                    first_doc = dj
                else:
                    rec["docdiff"] = json_diff(first_doc, dj)
                loaded, obj = outcome_of(lambda: io.load(f, audio_dir=adir))
                rec["loaded"] = loaded
                if loaded == "":
                    rec["type"] = next((k for k, c in CTYPE_CLASS.items() if type(obj) is c), type(obj).__name__)
                    rec["diff"] = diff(root, obj)
                    cur = obj
            cycles.append(rec)
            traces.append(read_events(tf, rev))
            if rec["saved"] or rec["loaded"]:
                break
        return {"cycles": cycles, "traces": traces, "hooks": hooks_enabled()}
    finally:
        os.chdir(cwd)
        shutil.rmtree(tmp, ignore_errors=True)


def recordings_in(obj, seen=None, out=None):
    """Every Recording instance reachable from a loaded object (each occurrence, not deduplicated)."""
    out = [] if out is None else out
    if isinstance(obj, data.Recording):
        out.append(obj)
        return out
    if isinstance(obj, BaseModel):
        for f in type(obj).model_fields:
            recordings_in(getattr(obj, f), seen, out)
    elif isinstance(obj, (list, tuple)):
        for x in obj:
            recordings_in(x, seen, out)
    return out


def comps(p):
    return [str(x) for x in Path(p).parts]


class _FsPath:
    """an os.PathLike that is neither str nor pathlib.Path (like os.DirEntry)"""
    def __init__(self, p):
        self._p = str(p)
    def __fspath__(self):
        return self._p
    def __repr__(self):
        return f"<FsPath {self._p!r}>"


def run_paths(case, workdir: Path):
    """C18 observation: save under A, inspect stored paths, load under B and under no directory."""
    tmp = Path(tempfile.mkdtemp(prefix="aoefp_", dir=str(workdir)))
    cwd = os.getcwd()
    try:
        os.chdir(tmp)
        rel = case.get("akind", "abs") == "rel"
        # the directory names carry a dot-suffix (audio dir A.v2): a directory is a directory whatever its name looks like
        A = Path("audio dir A.v2") if rel else tmp / "audio dir A.v2"
        if rel and (case.get("dir") or [""])[0] == "~":
            A = Path(".")        # the recordings are given as "~/x/<file>": a relative path whose first component is a tilde
        if case.get("place") == "outside_cwd":
            A = Path(".")        # the current directory itself; the recordings are absolute and elsewhere
        bk = case.get("bkind", "abs")
        first = (case.get("dir") or ["audio dir A.v2"])[0]
        B = {"abs": tmp / "moved" / "audio B", "rel": Path("moved") / "audio B", "rel_first": Path(first), "root": Path("/")}[bk]
        root, rev, recs = build_world(case, A)
        mode = case["audio"]
        adir = {"none": None, "str": str(A), "path": A, "fspath": _FsPath(A)}[mode]
        bdir = {"none": None, "str": str(B), "path": B, "fspath": _FsPath(B)}[mode]
        f = tmp / "out" / "doc.json"
        call = case.get("call", "default")
        skw = {"format": "aoef"} if call == "format_aoef" else ({"format": None} if call == "format_none" else {})
        lkw = dict(skw)
        if call == "typed":
            lkw["type"] = case["ctype"]
        saved, _ = outcome_of(lambda: io.save(root, f, audio_dir=adir, **skw))
        out = {"saved": saved, "file_exists": f.exists(), "loaded": "", "loadedN": "", "A": comps(A), "B": comps(B), "recs": []}
        table = {str(r.uuid): {"id": rev[str(r.uuid)], "orig": comps(GIVEN_PATHS.get(str(r.uuid), r.path)), "stored": [""], "atB": [""], "atNone": [""], "count": 0}
                 for r in recs}
        if saved == "":
            d = json.loads(f.read_text())["data"]
            for r in d.get("recordings") or []:
                if r["uuid"] in table:
                    table[r["uuid"]]["stored"] = comps(r["path"])
            if mode != "none":
                out["loaded"], objB = outcome_of(lambda: io.load(f, audio_dir=bdir, **lkw))
                if out["loaded"] == "":
                    seen = {}
                    for r in recordings_in(objB):
                        seen.setdefault(str(r.uuid), set()).add(tuple(comps(r.path)))
                    for u, ps in seen.items():
                        if u in table:
                            table[u]["atB"] = list(sorted(ps)[0])
                            table[u]["count"] = len(ps)
            out["loadedN"], objN = outcome_of(lambda: io.load(f, **lkw))
            if out["loadedN"] == "":
                seen = {}
                for r in recordings_in(objN):
                    seen.setdefault(str(r.uuid), set()).add(tuple(comps(r.path)))
                for u, ps in seen.items():
                    if u in table:
                        table[u]["atNone"] = list(sorted(ps)[0])
                        if mode == "none":
                            table[u]["count"] = len(ps)
        # history: the same collection saved a second time in this process under ANOTHER directory (the parent of A)
        out["saved2"], out["A2"] = "skipped", comps(A)
        for t in table.values():
            t["stored2"] = [""]
        if saved == "" and mode != "none" and case.get("place", "inside") == "inside":
            A2 = A.parent if str(A.parent) not in ("", ".") else Path(".")
            if str(A2) != ".":
                f2 = tmp / "out" / "doc2.json"
                a2 = str(A2) if mode == "str" else (_FsPath(A2) if mode == "fspath" else A2)
                out["saved2"], _ = outcome_of(lambda: io.save(root, f2, audio_dir=a2))
                out["A2"] = comps(A2)
                if out["saved2"] == "":
                    for r in json.loads(f2.read_text())["data"].get("recordings") or []:
                        if r["uuid"] in table:
                            table[r["uuid"]]["stored2"] = comps(r["path"])
        # the same load once more with the recordings really present under A, the process standing INSIDE A and the files
        # absent under B: relocation is a matter of path algebra, whatever exists on disk or wherever the process stands
        out["loadedfs"], out["Bfs"] = "skipped", [""]
        for t in table.values():
            t["atBfs"] = [""]
        if saved == "" and mode != "none" and case.get("place", "inside") == "inside":
            try:
                for r in recs:
                    rp = Path(r.path)
                    rp.parent.mkdir(parents=True, exist_ok=True)
                    rp.write_bytes(b"")
                Aabs = Path(os.path.abspath(A))
                Bfs = tmp / "moved fs" / "audio B"
                os.chdir(Aabs)
                bfs = {"str": str(Bfs), "path": Bfs, "fspath": _FsPath(Bfs)}[mode]
                out["Bfs"] = comps(Bfs)
                out["loadedfs"], objF = outcome_of(lambda: io.load(f, audio_dir=bfs, **lkw))
                if out["loadedfs"] == "":
                    for r in recordings_in(objF):
                        if str(r.uuid) in table:
                            table[str(r.uuid)]["atBfs"] = comps(r.path)
            finally:
                os.chdir(tmp)
        out["recs"] = [table[k] for k in sorted(table, key=lambda u: table[u]["id"])]
        return out
    finally:
        os.chdir(cwd)
        shutil.rmtree(tmp, ignore_errors=True)


# ----------------------------------------------------------------------------- random worlds (larger than TLC enumerates)
def _children(d):
    k = d["kind"]
    nb = lambda notes: [u for n in notes for u in n["by"]]
    if k in ("user", "tag"):
        return []
    if k == "recording":
        return d["tags"] + nb(d["notes"]) + d["owners"]
    if k in ("clip", "sound_event"):
        return [d["recording"]]
    if k == "sequence":
        return d["parent"] + d["sound_events"]
    if k == "se_ann":
        return [d["sound_event"]] + nb(d["notes"]) + d["tags"] + d["by"]
    if k == "seq_ann":
        return [d["sequence"]] + nb(d["notes"]) + d["tags"] + d["by"]
    if k == "clip_ann":
        return [d["clip"]] + d["tags"] + d["sound_events"] + d["sequences"] + nb(d["notes"])
    if k in ("se_pred",):
        return [d["sound_event"]] + d["tags"]
    if k == "seq_pred":
        return [d["sequence"]] + d["tags"]
    if k == "clip_pred":
        return [d["clip"]] + d["sound_events"] + d["sequences"] + d["tags"]
    if k == "match":
        return d["source"] + d["target"]
    if k == "clip_eval":
        return [d["annotations"], d["predictions"]] + d["matches"]
    if k == "task":
        return [u for b in d["badges"] for u in b["owner"]] + [d["clip"]]
    raise ValueError(k)


def random_world(rng, ctype, dups=None):
    """A random object graph in the format of Aoef!World (only reachable objects are listed)."""
    pick = lambda xs, lo, hi: rng.sample(xs, min(len(xs), rng.randint(lo, hi))) if xs else []
    one = lambda xs: [rng.choice(xs)] if xs and rng.random() < 0.6 else []
    users = [f"u{i}" for i in range(rng.randint(0, 4))]
    tags = [f"t{i}" for i in range(rng.randint(0, 7))]
    notes = lambda: [{"by": one(users)} for _ in range(rng.choice([0, 0, 1, 2]))]
    O = []
    O += [{"id": u, "kind": "user"} for u in users] + [{"id": t, "kind": "tag"} for t in tags]
    recs = [f"r{i}" for i in range(rng.randint(1, 3))]
    O += [{"id": r, "kind": "recording", "tags": pick(tags, 0, 3), "notes": notes(), "owners": pick(users, 0, 2)} for r in recs]
    clips = [f"c{i}" for i in range(rng.randint(1, 4))]
    O += [{"id": c, "kind": "clip", "recording": rng.choice(recs)} for c in clips]
    ses = [f"se{i}" for i in range(rng.randint(0, 8))]
    O += [{"id": s, "kind": "sound_event", "recording": rng.choice(recs)} for s in ses]
    seqs = []
    for i in range(rng.randint(0, 5)):
        O.append({"id": f"q{i}", "kind": "sequence", "parent": one(seqs), "sound_events": pick(ses, 0, 3)})
        seqs.append(f"q{i}")
    seas = [f"sea{i}" for i in range(rng.randint(0, min(6, len(ses) * 2)))]
    O += [{"id": a, "kind": "se_ann", "sound_event": rng.choice(ses), "notes": notes(), "tags": pick(tags, 0, 3), "by": one(users)} for a in seas]
    sqas = [f"sqa{i}" for i in range(rng.randint(0, 3) if seqs else 0)]
    O += [{"id": a, "kind": "seq_ann", "sequence": rng.choice(seqs), "notes": notes(), "tags": pick(tags, 0, 2), "by": one(users)} for a in sqas]
    seps = [f"sep{i}" for i in range(rng.randint(0, min(6, len(ses) * 2)))]
    O += [{"id": p, "kind": "se_pred", "sound_event": rng.choice(ses), "tags": pick(tags, 0, 3)} for p in seps]
    sqps = [f"sqp{i}" for i in range(rng.randint(0, 3) if seqs else 0)]
    O += [{"id": p, "kind": "seq_pred", "sequence": rng.choice(seqs), "tags": pick(tags, 0, 2)} for p in sqps]
    # each clip gets one clip annotation and one clip prediction; annotations/predictions are dealt out without repetition
    rng.shuffle(seas); rng.shuffle(seps)
    cas, cps, ces, ms = [], [], [], []
    for n, c in enumerate(clips):
        a_se = [seas.pop() for _ in range(min(len(seas), rng.randint(0, 3)))]
        p_se = [seps.pop() for _ in range(min(len(seps), rng.randint(0, 3)))]
        O.append({"id": f"ca{n}", "kind": "clip_ann", "clip": c, "tags": pick(tags, 0, 2), "sound_events": a_se,
                  "sequences": pick(sqas, 0, 2), "notes": notes()})
        O.append({"id": f"cp{n}", "kind": "clip_pred", "clip": c, "sound_events": p_se, "sequences": pick(sqps, 0, 2),
                  "tags": pick(tags, 0, 2)})
        cas.append(f"ca{n}"); cps.append(f"cp{n}")
        mm, aa, pp = [], list(a_se), list(p_se)
        rng.shuffle(aa); rng.shuffle(pp)
        while aa or pp:
            if aa and pp and rng.random() < 0.6:
                src, tgt = [pp.pop()], [aa.pop()]
            elif pp and (not aa or rng.random() < 0.5):
                src, tgt = [pp.pop()], []
            else:
                src, tgt = [], [aa.pop()]
            mid = f"m{len(ms)}"
            ms.append(mid); mm.append(mid)
            O.append({"id": mid, "kind": "match", "source": src, "target": tgt})
        O.append({"id": f"ce{n}", "kind": "clip_eval", "annotations": f"ca{n}", "predictions": f"cp{n}", "matches": mm})
        ces.append(f"ce{n}")
        if rng.random() < 0.25:  # a second, distinct clip annotation and clip prediction of the SAME clip (empty ones)
            O.append({"id": f"ca{n}x", "kind": "clip_ann", "clip": c, "tags": pick(tags, 0, 2), "sound_events": [],
                      "sequences": pick(sqas, 0, 1), "notes": notes()})
            O.append({"id": f"cp{n}x", "kind": "clip_pred", "clip": c, "sound_events": [], "sequences": [], "tags": pick(tags, 0, 2)})
            cas.append(f"ca{n}x"); cps.append(f"cp{n}x")
        if rng.random() < 0.2:   # a second evaluation of the same clip sharing annotations, predictions and matches
            O.append({"id": f"ce{n}b", "kind": "clip_eval", "annotations": f"ca{n}", "predictions": f"cp{n}", "matches": list(mm)})
            ces.append(f"ce{n}b")
    ks = []
    for n, c in enumerate(clips):
        O.append({"id": f"k{n}", "kind": "task", "clip": c,
                  "badges": ([{"owner": []}] if rng.random() < 0.4 else []) + [{"owner": one(users)} for _ in range(rng.choice([0, 1, 2]))]})
        ks.append(f"k{n}")
    if ctype in ("recording_set", "dataset"):
        roots = {"recordings": pick(recs, 1, 3)}
    elif ctype == "annotation_set":
        roots = {"clip_annotations": pick(cas, 0, 4)}
    elif ctype == "annotation_project":
        roots = {"clip_annotations": pick(cas, 0, 4), "annotation_tags": pick(tags, 0, 3), "tasks": ks}
    elif ctype == "evaluation_set":
        roots = {"clip_annotations": pick(cas, 0, 4), "evaluation_tags": pick(tags, 0, 3)}
    elif ctype in ("prediction_set", "model_run"):
        roots = {"clip_predictions": pick(cps, 0, 4)}
    else:
        roots = {"clip_evaluations": pick(ces, 0, 4)}
    if (rng.random() < 0.35) if dups is None else dups:
        # lists that mention one object TWICE (legal: tags, owners, sound events, sequences of an object; the members of the
        # collection itself): the loaded object must list it twice again, at the same positions
        for d in O:
            for f in ("tags", "owners", "sound_events", "sequences"):
                if d.get(f) and d["kind"] != "clip_eval" and rng.random() < 0.4:
                    if ctype == "evaluation" and f == "sound_events" and d["kind"] in ("clip_ann", "clip_pred"):
                        continue      # a clip evaluation wants every listed event matched exactly once
                    d[f] = d[f] + [rng.choice(d[f])]
        for k, v in roots.items():
            if v and k != "tasks" and (dups or rng.random() < 0.5):
                roots[k] = v + [rng.choice(v)]
    byid = {d["id"]: d for d in O}
    seen, front = set(), [x for v in roots.values() for x in v]
    while front:
        x = front.pop()
        if x in seen:
            continue
        seen.add(x)
        front += _children(byid[x])
    return {"ctype": ctype, "objs": [d for d in O if d["id"] in seen], "roots": roots, "sw": ["random"],
            "pattern": rng.choice(["min", "max", "alt"]), "audio": rng.choice(["none", "str", "path"]),
            "cycles": rng.choice([1, 2, 3]), "place": "inside",
            "dir": rng.choice([[], ["d1"], ["sub dir", "ünï"], ["site_a", "..", "shared"], ["field\\notes", ".cache"]]),
            "file": rng.choice(["a.wav", "with space.wav", "üñí ©.wav", "take\\002.wav", "~lock.wav"]),
            "same_path": rng.random() < 0.25}


def random_worlds(rng, n):
    # the first two worlds always list a member of the collection twice (an Evaluation and an AnnotationSet): the two open
    # findings about repeated members are exercised by every run
    for ct, f in (("evaluation", "clip_evaluations"), ("annotation_set", "clip_annotations")):
        for _ in range(200):
            w = random_world(rng, ct, dups=True)
            if len(set(w["roots"][f])) < len(w["roots"][f]):
                yield w
                break
    for _ in range(n - 2):
        yield random_world(rng, rng.choice(list(CTYPE_CLASS)))


# ----------------------------------------------------------------------------- recorded documents (not produced by TLC)
CLASS_KIND = [(data.User, "user"), (data.Tag, "tag"), (data.Recording, "recording"), (data.Clip, "clip"),
              (data.SoundEvent, "sound_event"), (data.Sequence, "sequence"), (data.SoundEventAnnotation, "se_ann"),
              (data.SequenceAnnotation, "seq_ann"), (data.ClipAnnotation, "clip_ann"), (data.SoundEventPrediction, "se_pred"),
              (data.SequencePrediction, "seq_pred"), (data.ClipPrediction, "clip_pred"), (data.Match, "match"),
              (data.ClipEvaluation, "clip_eval"), (data.AnnotationTask, "task")]


def objs_of(root):
    """(kind, identifier) of every distinct object reachable from a collection: generic walk over model_fields."""
    found, rev, stack, seen = {}, {}, [root], set()
    while stack:
        x = stack.pop()
        if isinstance(x, BaseModel):
            if id(x) in seen:
                continue
            seen.add(id(x))
            for cls, kind in CLASS_KIND:
                if type(x) is cls:
                    if kind == "tag":
                        key = (x.term.label, x.value)
                        name = f"tag:{x.term.label}={x.value}"
                        rev[key] = name
                    else:
                        name = str(x.uuid)
                        rev[name] = name
                    found[(kind, name)] = True
                    break
            for f in type(x).model_fields:
                stack.append(getattr(x, f))
        elif isinstance(x, (list, tuple)):
            stack.extend(x)
    return [{"id": n, "kind": k} for (k, n) in sorted(found)], rev


def run_recorded(path: Path, workdir: Path):
    """load a bundled document, save it again, analyse what was written, load that and compare (C01 + C02 observation)."""
    tmp = Path(tempfile.mkdtemp(prefix="aoefr_", dir=str(workdir)))
    try:
        failed, first = outcome_of(lambda: io.load(path))
        if failed:          # the bundled document no longer loads: an observation (SaveLoadSucceeds decides), not a crash of the binder
            try:
                ctype = json.loads(path.read_text())["data"]["collection_type"]
            except Exception:
                ctype = "?"
            rec = {"saved": "", "loaded": failed, "type": "?", "diff": [], "docdiff": [],
                   "doc": {"defs": {k: [] for k in KINDS}, "refs": [], "parents": []}}
            return {"src": "bundled:" + path.name, "in": {"ctype": ctype, "objs": [], "sw": ["recorded"], "file": path.name},
                    "out": {"cycles": [rec]}}
        objs, rev = objs_of(first)
        ctype = next((k for k, c in CTYPE_CLASS.items() if type(first) is c), type(first).__name__)
        cycles, cur, first_doc = [], first, None
        for n in range(2):
            f = tmp / f"r{n}.json"
            saved, _ = outcome_of(lambda: io.save(cur, f))
            rec = {"saved": saved, "loaded": "", "type": "?", "diff": [], "docdiff": [],
                   "doc": {"defs": {k: [] for k in KINDS}, "refs": [], "parents": []}}
            if saved == "":
                text = f.read_text()
                rec["doc"], _, _ = analyse_doc(text, rev)
                dj = doc_without_wrapper_time(text)
                if first_doc is None:
                    first_doc = dj
                else:
                    rec["docdiff"] = json_diff(first_doc, dj)
                rec["loaded"], obj = outcome_of(lambda: io.load(f))
                if rec["loaded"] == "":
                    rec["type"] = next((k for k, c in CTYPE_CLASS.items() if type(obj) is c), type(obj).__name__)
                    rec["diff"] = diff(first, obj)
                    cur = obj
            cycles.append(rec)
        return {"src": "bundled:" + path.name, "in": {"ctype": ctype, "objs": objs, "sw": ["recorded"], "file": path.name},
                "out": {"cycles": cycles}}
    finally:
        shutil.rmtree(tmp, ignore_errors=True)


def bundled(tier):
    d = Path(os.environ.get("VERIF_SRC", "/repo/src")).parent / "tests" / "data"
    if not d.exists():
        d = Path("/repo/tests/data")
    files = sorted(d.glob("*.json"), key=lambda p: p.stat().st_size)
    return [p for p in files if tier == "thorough" or p.stat().st_size < 400_000]


# ----------------------------------------------------------------------------- traces of the repository's own tests
def repo_test_traces(workdir: Path, limit=400):
    """Run tests/test_io of the tree under test with the hooks on; cut the event stream into save / load segments."""
    import subprocess, sys
    src = Path(os.environ.get("VERIF_SRC", "/repo/src"))
    repo = src.parent
    tf = workdir / "repo_tests_trace.ndjson"
    if tf.exists():
        tf.unlink()
    env = dict(os.environ, SOUNDEVENT_VERIF=str(tf), PYTHONPATH=str(src))
    p = subprocess.run([sys.executable, "-m", "pytest", "-q", "-x", "-p", "no:cacheprovider", "-p", "no:xdist", "tests/test_io",
                        "--deselect", "tests/test_io/test_crowsetta"],
                       cwd=str(repo), env=env, capture_output=True, text=True, timeout=900)
    if not tf.exists():
        raise Machinery("the repository's tests produced no hook events: " + p.stdout[-300:])
    segs, cur = [], None
    names = {}
    for line in tf.read_text().splitlines():
        r = json.loads(line)
        ev = r["ev"]
        if ev == "begin":
            cur = {"dir": r["dir"], "ctype": r["ctype"], "events": []}
            names = {}
            continue
        if cur is None:
            continue          # adapters exercised directly by a unit test, outside save/load
        if ev == "end":
            if r["dir"] == "save":
                cur["events"].append({"e": "endsave", "k": "", "o": "", "n": 0})
            segs.append(cur)
            cur = None
            continue
        k = ADAPTER_KIND.get(r.get("adapter"), "?")
        o = ""
        if "id" in r:
            o = names.setdefault((k, str(r["id"])), f"{k}#{len(names) + 1}")
        n = int(r["size"]) if "size" in r else (1 if r.get("hit") else 0)
        cur["events"].append({"e": ev, "k": k, "o": o, "n": n})
    tf.unlink()
    segs = [s for s in segs if s["events"] and all(ev["k"] != "?" for ev in s["events"])]
    step = max(1, len(segs) // limit)
    for s in segs[::step]:
        yield {"src": "repo-tests:" + s["dir"], "in": {"ctype": s["ctype"], "objs": [], "sw": ["repo-tests"]},
               "out": {"traces": [s["events"]]}}
