"""C10 binder: crowsetta conversions.  Encoder only -- the verdict is T_Crowsetta's.

Builds real crowsetta / soundevent objects from lattice cases, calls the real conversion
functions, and encodes what came back: doubles as {"r": exact [num, den] or [], "l": limbs},
tags as [key, value] pairs, labels as strings, exceptions as their class name.
"""
import warnings
from fractions import Fraction

import crowsetta

import soundevent.io.crowsetta as cio
from soundevent import data
from soundevent.io.crowsetta.segment import create_crowsetta_segment as mkseg
from vt.enc import limbs, rat
from vt.geom import build

warnings.filterwarnings("ignore")

PROPERTY = "C10"
TRACE = "T_Crowsetta"
ENUM = {
    "quick":    [dict(module="MC_Crowsetta", cfg="MC_Crowsetta_quick.cfg", workers=8)],
    "thorough": [dict(module="MC_Crowsetta", cfg="MC_Crowsetta_thorough.cfg", workers=16, coverage=True)],
}
POOL = 12
CHUNK = 2500
RULE = ("one observation per terminal state of MC_Crowsetta (label_to_tags option table x 4 label modes run directly and through "
        "segment/bbox import; label_from_tags / label_from_tag option table; import lattice of segments, boxes, sequences, "
        "annotations x samplerate x time expansion; export of every catalogue geometry and of event lists x cast x ignore_errors x "
        "raise_on_time_geometries x samplerate; round trips, also import with term_mapping / export with select_by_key; export of "
        "intervals at non-binary decimal times x rates incl. 44100; tag lists mixing key-built tags with hand-built and vocabulary "
        "terms of the same label) plus random cases on larger lattices; non-trivial = at least one "
        "element/event, a non-empty label (l2t), a non-empty tag list (t2l)")
TRUSTED_BASE = ["checks/c10.py + vt/geom.py (build crowsetta/soundevent objects on dyadic units, call the conversion, read back "
                "coordinates as exact rationals + limbs, tags as [key, value], exception class names)"]
ASSUMPTIONS = ["exact cases use dyadic units (times k/8, k/64, k/1024 s; frequencies k/2 Hz; te in {1,2,4,8,1/2,1/4}; power-of-two "
               "samplerates on the sample path), so every float operation of the implementation is exact and results must equal "
               "the rational model exactly",
               "non-exact random cases (te 10, 3, 5/2, 3/2; decimal times; 8000/16000 Hz) are compared in TLA+ with "
               "Lattice!LApproxRat (|v - p/q| < 2.4e-10/q)",
               "domain facts of crowsetta (BBox needs onset < offset, low < high; a Sequence holds segments with the same "
               "seconds/samples presence) restrict the generator or fall under ErrorPolicy; they are not judged",
               "sample indices of arbitrary doubles (kind xs): the doubles passed are shipped as exact limb numbers and floor(t x sr) is "
               "computed exactly in TLA+ (Lattice!LMulMag); floor + 1 is accepted only when the exact product is within 2^-32 below an "
               "integer (the binary product can round up to it; half an ulp <= 2^-34 for products < 2^20)",
               "adjust_time_expansion is left at its default (True); the statement does not mention the switch"]

PATH = "a.wav"
_RECS = {}


def _rec(sr, te=(1, 1)):
    k = (sr, tuple(te))
    if k not in _RECS:
        _RECS[k] = data.Recording(path=PATH, duration=1000.0, channels=1, samplerate=sr, time_expansion=te[0] / te[1])
    return _RECS[k]


def num(x):
    x = float(x)
    return {"r": rat(x, maxden=2**20), "l": limbs(x)}


ZERO = {"r": [0, 1], "l": limbs(0.0)}


def tagpairs(tags):
    return [[data.key_from_term(t.term), t.value] for t in tags]


def observe(fn):
    """Call the library; an exception is an observation."""
    try:
        return "", fn()
    except Exception as ex:  # judged by the spec
        return type(ex).__name__, None


# ------------------------------------------------------------------ label_to_tags options
def _boom(label):
    raise ValueError("tag_fn does not know " + label)


def l2t_kwargs(to):
    lab = to["label"]
    kw = {}
    if to["empties"]:
        kw["empty_labels"] = list(to["empties"][0])
    if to["fn"] == "h":
        tags = [data.Tag(key="kfn", value="vfn"), data.Tag(key="kfn2", value="vfn2")]
        kw["tag_fn"] = (lambda _l: list(tags)) if to["fnlist"] else (lambda _l: tags[0])
    elif to["fn"] == "m":
        kw["tag_fn"] = _boom
    if to["termmap"] != "a":
        kw["term_mapping"] = {(lab if to["termmap"] == "h" else "other-label"): data.term_from_key("TM")}
    if to["tagmap"] != "a":
        tg = [data.Tag(key="ktg", value="vtg"), data.Tag(key="ktg2", value="vtg2")]
        kw["tag_mapping"] = {(lab if to["tagmap"] == "h" else "other-label"): (tg if to["tagmaplist"] else tg[0])}
    if to["keymap"] != "a":
        kw["key_mapping"] = {(lab if to["keymap"] == "h" else "other-label"): "KM"}
    if to["key"]:
        kw["key"] = to["key"][0]
    if to["term"]:
        kw["term"] = data.term_from_key(to["term"][0])
    if to["fb"]:
        kw["fallback"] = to["fb"][0]
    return kw


def run_l2t(case):
    to = case["to"]
    lab = to["label"]
    rec = _rec(8)
    seg = mkseg(label=lab, onset_s=0.5, offset_s=1.0)
    box = crowsetta.BBox(onset=0.5, offset=1.0, low_freq=1.0, high_freq=2.0, label=lab)
    calls = [("direct", lambda: cio.label_to_tags(lab, **l2t_kwargs(to))),
             ("segment", lambda: cio.segment_to_annotation(seg, rec, **l2t_kwargs(to)).tags),
             ("bbox", lambda: cio.bbox_to_annotation(box, rec, **l2t_kwargs(to)).tags)]
    runs = []
    for via, fn in calls:
        raised, tags = observe(fn)
        runs.append({"via": via, "raised": raised, "tags": tagpairs(tags) if raised == "" else []})
    return {"runs": runs}


# ------------------------------------------------------------------ label_from_tag(s) options
def lo_kwargs(lo, direct=False):
    kw = {}
    if lo["seqfn"]:
        kw["seq_label_fn"] = lambda tags: "seq<%d>" % len(tags)
    if lo["sel"]:
        kw["select_by_key"] = lo["sel"][0]
    if lo["idx"]:
        kw["index"] = lo["idx"][0]
    if lo["sep"]:
        kw["separator"] = lo["sep"][0]
    if lo["empty"]:
        kw["empty_label"] = lo["empty"][0]
    if lo["kvsep"] and direct:
        kw["separator"] = lo["kvsep"][0]
    if lo["fn"]:
        kw["label_fn"] = lambda t: "fn<%s|%s>" % (data.key_from_term(t.term), t.value)
    if lo["map"] == "h":
        kw["label_mapping"] = {data.Tag(key="animal", value="dog"): "canine"}
    elif lo["map"] == "m":
        kw["label_mapping"] = {data.Tag(key="zzz", value="zzz"): "nothing"}
    if lo["vo"] == "t":
        kw["value_only"] = True
    elif lo["vo"] == "f":
        kw["value_only"] = False
    return kw


_VOCAB = None


def mk_tag(t):
    """<<key, value, flavour>> -> Tag.  'k': Tag(key=...); 'h': hand-built Term with that label; 'v': the soundevent.terms term with that label."""
    global _VOCAB
    k, v, fl = t
    if fl == "k":
        return data.Tag(key=k, value=v)
    if fl == "h":
        return data.Tag(term=data.Term(label=k, name="custom:" + k.replace(" ", "_"), definition="a hand-built term"), value=v)
    if _VOCAB is None:
        from soundevent import terms
        _VOCAB = {x.label: x for x in (getattr(terms, n) for n in dir(terms)) if isinstance(x, data.Term)}
    return data.Tag(term=_VOCAB[k], value=v)


def _label_out(raised, label):
    if raised == "" and not isinstance(label, str):
        return {"raised": "", "label": "not-a-string:" + repr(label)[:40]}
    return {"raised": raised, "label": label if raised == "" else ""}


def run_t2l(case):
    tags = [mk_tag(t) for t in case["tags"]]
    return _label_out(*observe(lambda: cio.label_from_tags(tags, **lo_kwargs(case["lo"]))))


def run_t1l(case):
    tag = mk_tag(case["tag"])
    return _label_out(*observe(lambda: cio.label_from_tag(tag, **lo_kwargs(case["lo"], direct=True))))


# ------------------------------------------------------------------ crowsetta elements from lattice elements
def mk_element(el, case):
    td, fd = case["tden"], case["fden"]
    if el["frq"]:
        return crowsetta.BBox(onset=el["sec"][0] / td, offset=el["sec"][1] / td,
                              low_freq=el["frq"][0] / fd, high_freq=el["frq"][1] / fd, label=el["label"])
    kw = {}
    if el["sec"]:
        kw.update(onset_s=el["sec"][0] / td, offset_s=el["sec"][1] / td)
    if el["smp"]:
        kw.update(onset_sample=el["smp"][0], offset_sample=el["smp"][1])
    return mkseg(label=el["label"], **kw)


def mk_container(els, case):
    via = case["via"]
    xs = [mk_element(e, case) for e in els]
    if via in ("segment", "bbox"):
        return xs[0]
    if via == "sequence":
        return crowsetta.Sequence.from_segments(xs)
    if via == "annot_seq":
        return crowsetta.Annotation(annot_path="x.txt", notated_path=PATH, seq=crowsetta.Sequence.from_segments(xs))
    if via == "annot_bbox":
        return crowsetta.Annotation(annot_path="x.txt", notated_path=PATH, bboxes=xs)
    raise ValueError(via)


def do_import(obj, case, rec, **kw):
    via = case["via"]
    if via == "segment":
        return [cio.segment_to_annotation(obj, rec, **kw)]
    if via == "bbox":
        return [cio.bbox_to_annotation(obj, rec, **kw)]
    if via == "sequence":
        return cio.sequence_to_annotations(obj, rec, **kw)
    return list(cio.annotation_to_clip_annotation(obj, recording=rec, **kw).sound_events)


def run_imp(case):
    rec = _rec(case["sr"], case["te"])
    obj = mk_container(case["els"], case)
    raised, anns = observe(lambda: do_import(obj, case, rec))
    items = []
    if raised == "":
        for a in anns:
            g = a.sound_event.geometry
            items.append({"type": str(g.type), "c": [num(x) for x in g.coordinates], "tags": tagpairs(a.tags)})
    return {"raised": raised, "items": items}


# ------------------------------------------------------------------ export
def seg_item(s):
    return {"on": num(s.onset_s), "off": num(s.offset_s), "lo": ZERO, "hi": ZERO,
            "smp": [] if s.onset_sample is None or s.offset_sample is None else [int(s.onset_sample), int(s.offset_sample)],
            "label": str(s.label)}


def box_item(b):
    return {"on": num(b.onset), "off": num(b.offset), "lo": num(b.low_freq), "hi": num(b.high_freq), "smp": [], "label": str(b.label)}


def do_export(anns, case, rec, **kw):
    """-> list of items; kw are label options."""
    via = case["via"]
    if via == "segment":
        return [seg_item(cio.segment_from_annotation(anns[0], cast_to_segment=case["cast"], **kw))]
    if via == "bbox":
        return [box_item(cio.bbox_from_annotation(anns[0], cast_to_bbox=case["cast"], raise_on_time_geometries=case["rtg"], **kw))]
    if via == "sequence":
        seq = cio.sequence_from_annotations(anns, cast_to_segment=case["cast"], ignore_errors=case["ign"], **kw)
        return [seg_item(s) for s in seq.segments]
    clip = data.ClipAnnotation(clip=data.Clip(recording=rec, start_time=0, end_time=rec.duration), sound_events=anns)
    if via == "annot_seq":
        a = cio.annotation_from_clip_annotation(clip, "x.txt", "seq", ignore_errors=case["ign"], cast_geometry=case["cast"], **kw)
        seq = getattr(a, "seq", None)
        return [seg_item(s) for s in (seq.segments if seq is not None else [])]
    if via == "annot_bbox":
        a = cio.annotation_from_clip_annotation(clip, "x.txt", "bbox", ignore_errors=case["ign"], cast_geometry=case["cast"],
                                                raise_on_time_geometries=case["rtg"], **kw)
        return [box_item(b) for b in getattr(a, "bboxes", [])]
    raise ValueError(via)


def run_exp(case):
    rec = _rec(case["sr"])
    tu, fu = 1.0 / case["tden"], 1.0 / case["fden"]
    anns = []
    for i, g in enumerate(case["evs"], start=1):
        geom = None if g["type"] == "None" else build(g, tu, fu)
        anns.append(data.SoundEventAnnotation(sound_event=data.SoundEvent(recording=rec, geometry=geom),
                                              tags=[data.Tag(key="ev", value=str(i))]))
    kw = {}
    if case["vo"] != "a":
        kw["value_only"] = case["vo"] == "t"
    if case["lsel"]:
        kw["select_by_key"] = case["lsel"][0]
    raised, items = observe(lambda: do_export(anns, case, rec, **kw))
    return {"raised": raised, "items": items if raised == "" else []}


def run_rt(case):
    rec = _rec(case["sr"])
    obj = mk_container(case["els"], case)
    ikw = {"key": case["ikey"][0]} if case["ikey"] else {}
    ekw = {"value_only": True}
    if case.get("sel"):
        key = case["sel"][0]
        term = data.Term(label=key, name="custom:" + key, definition="a hand-built term")
        ikw["term_mapping"] = {el["label"]: term for el in case["els"]}
        ekw["select_by_key"] = key
    raised, items = observe(lambda: do_export(do_import(obj, case, rec, **ikw), case, rec, **ekw))
    return {"raised": raised, "items": items if raised == "" else []}


def run_xs(case):
    """Export an interval whose times are arbitrary doubles; ship the doubles passed and the exported ones as limbs."""
    rec = _rec(case["sr"])
    if "thex" in case:
        t1, t2 = (float.fromhex(h) for h in case["thex"])
    else:
        t1, t2 = (k / den for k, den in case["t"])
    ann = data.SoundEventAnnotation(sound_event=data.SoundEvent(recording=rec, geometry=data.TimeInterval(coordinates=[t1, t2])),
                                    tags=[data.Tag(key="ev", value="1")])
    if case["via"] == "segment":
        raised, seg = observe(lambda: cio.segment_from_annotation(ann))
    else:
        raised, seg = observe(lambda: cio.sequence_from_annotations([ann]).segments[0])
    if raised:
        return {"raised": raised, "tl": [], "ol": [], "smp": []}
    return {"raised": "", "tl": [limbs(t1), limbs(t2)], "ol": [limbs(seg.onset_s), limbs(seg.offset_s)],
            "smp": [int(seg.onset_sample), int(seg.offset_sample)]}


RUN = {"xs": run_xs, "l2t": run_l2t, "t2l": run_t2l, "t1l": run_t1l, "imp": run_imp, "exp": run_exp, "rt": run_rt}


def execute(case):
    return RUN[case["kind"]](case)


# ------------------------------------------------------------------ larger universes (random, seeded)
def _interval(rng, hi, allow_zero=True):
    a = rng.randrange(0, hi)
    b = a + rng.choice([0 if allow_zero else 1, 1, rng.randrange(1, hi)])
    return [a, min(b, hi)]


def _rand_geom(rng, tmax, fmax):
    k = rng.choice(["TimeInterval", "TimeInterval", "BoundingBox", "BoundingBox", "Point", "TimeStamp", "LineString", "MultiPoint",
                    "Polygon", "None"])
    t = lambda: rng.randrange(0, tmax)
    f = lambda: rng.randrange(0, fmax)
    if k == "None":
        return {"type": "None", "coordinates": 0}
    if k == "TimeStamp":
        return {"type": k, "coordinates": t()}
    if k == "TimeInterval":
        return {"type": k, "coordinates": _interval(rng, tmax)}
    if k == "Point":
        return {"type": k, "coordinates": [t(), f()]}
    if k == "BoundingBox":
        a, b = _interval(rng, tmax), _interval(rng, fmax)
        return {"type": k, "coordinates": [a[0], b[0], a[1], b[1]]}
    if k in ("LineString", "MultiPoint"):
        return {"type": k, "coordinates": [[t(), f()] for _ in range(rng.randrange(2, 5))]}
    a, b = _interval(rng, tmax, False), _interval(rng, fmax, False)
    return {"type": "Polygon", "coordinates": [[[a[0], b[0]], [a[1], b[0]], [a[1], b[1]], [a[0], b[1]], [a[0], b[0]]]]}


def random_cases(rng, tier):
    n = 400 if tier == "quick" else 4000
    for _ in range(n):
        # ---- import, exact dyadic lattice (1/1024 s, power-of-two rates)
        via = rng.choice(["segment", "bbox", "sequence", "annot_seq", "annot_bbox"])
        exact = rng.random() < 0.5
        if exact:
            te, sr, td, fd = rng.choice([[1, 1], [2, 1], [4, 1], [8, 1], [1, 2], [1, 4]]), rng.choice([4096, 8192, 16384]), 1024, 2
        else:
            te, sr, td, fd = rng.choice([[10, 1], [3, 1], [5, 2], [3, 2], [10, 1]]), rng.choice([8000, 16000]), rng.choice([8, 1000]), 1
        mode = "sec" if via in ("bbox", "annot_bbox") else rng.choice(["sec", "smp", "both"])
        m = 1 if via in ("segment", "bbox") else rng.randrange(1, 5)
        els = []
        for j in range(m):
            sec = _interval(rng, 2 * td, allow_zero=via not in ("bbox", "annot_bbox")) if mode != "smp" else []
            smp = _interval(rng, 2 * sr) if mode != "sec" else []
            frq = _interval(rng, 4000 * fd, False) if via in ("bbox", "annot_bbox") else []
            els.append({"sec": sec, "smp": smp, "frq": frq, "label": "L%d" % (j + 1)})
        yield {"kind": "imp", "via": via, "sr": sr, "te": te, "tden": td, "fden": fd, "exact": exact, "els": els}
    for _ in range(n):
        # ---- export on a larger lattice: times k/1024 s (k*sr < 2^31), frequencies in Hz
        via = rng.choice(["segment", "bbox", "sequence", "annot_seq", "annot_bbox"])
        sr = rng.choice([8000, 22050, 44100, 256, 1000])
        m = 1 if via in ("segment", "bbox") else rng.randrange(0, 5)
        if via == "annot_seq" and m == 0:
            m = 1
        evs = [_rand_geom(rng, 30000, rng.choice([100, sr, 30000])) for _ in range(m)]
        yield {"kind": "exp", "via": via, "sr": sr, "tden": 1024, "fden": 1, "cast": rng.random() < 0.6,
               "ign": False if via in ("segment", "bbox") else rng.random() < 0.5,
               "rtg": True if via in ("segment", "sequence", "annot_seq") else rng.random() < 0.5,
               "vo": rng.choice(["a", "a", "t", "f"]), "lsel": rng.choice([[], [], ["ev"]]), "evs": evs}
    for _ in range(n // 2):
        # ---- round trips, te = 1, dyadic
        via = rng.choice(["segment", "bbox", "sequence", "annot_seq", "annot_bbox"])
        sr, td, fd = rng.choice([4096, 16384]), 1024, 2
        box = via in ("bbox", "annot_bbox")
        mode = "sec" if box else rng.choice(["sec", "smp", "both"])
        m = 1 if via in ("segment", "bbox") else rng.randrange(1, 5)
        els = []
        for j in range(m):
            sec = _interval(rng, 4 * td, allow_zero=not box) if mode != "smp" else []
            smp = [] if mode == "sec" else (_interval(rng, 4 * sr) if mode == "smp" else [sec[0] * sr // td, sec[1] * sr // td])
            frq = _interval(rng, sr * fd // 2, False) if box else []
            els.append({"sec": sec, "smp": smp, "frq": frq, "label": rng.choice(["L%d" % (j + 1), "__empty__", "a b", "x:y", " L%d" % (j + 1), "y\n", " ", "\tz ", "e", "_", "__", "pty", "empty", "m"])})
        yield {"kind": "rt", "via": via, "sr": sr, "te": [1, 1], "tden": td, "fden": fd, "exact": True, "cast": False, "ign": False,
               "rtg": True, "vo": "t", "lsel": [], "ikey": rng.choice([[], ["K"]]), "sel": rng.choice([[], [], ["TM"]]), "els": els}
    rates = [(8, [8, 1]), (100, [100, 1]), (1000, [1000, 1]), (8000, [8000, 1]), (22050, [22050, 1]), (44100, [210, 210]),
             (48000, [480, 100]), (96000, [960, 100]), (12345, [12345, 1])]
    for _ in range(n):
        # ---- sample indices of arbitrary doubles: products just below / on / just above an integer, and plain decimals
        sr, srf = rng.choice(rates)

        def near():
            if rng.random() < 0.3:
                return max(0.001, round(rng.uniform(0.001, 9.0), rng.choice([1, 2, 3, 6])))
            k = rng.randrange(1, min(9 * sr, 900000))
            d = rng.choice([0.0, 1e-9, -1e-9, 1e-8, 1e-7, 3e-7, 4.9e-7, 6e-7, 1e-6, 1e-5, 0.25, 0.5])
            return max(0.001, (k - d) / sr)
        a, b = sorted([near(), near()])
        yield {"kind": "xs", "via": rng.choice(["segment", "sequence"]), "sr": sr, "srf": srf, "thex": [a.hex(), b.hex()]}


def nontrivial(o):
    c = o["in"]
    k = c["kind"]
    if k in ("imp", "rt"):
        return len(c["els"]) > 0
    if k == "exp":
        return len(c["evs"]) > 0
    if k == "l2t":
        return c["to"]["label"] not in (["__empty__"] if not c["to"]["empties"] else c["to"]["empties"][0])
    if k == "t2l":
        return len(c["tags"]) > 0
    if k == "xs":
        return True
    return True


def finding_key(o, clause):
    c = o["in"]
    return "%s/%s%s" % (clause, c["kind"], "/" + c["via"] if "via" in c else "")


MANIFEST = {
    "text": ("Crowsetta.tla states the import arithmetic (seconds, or sample index over the file rate sr/te, divided by te once; "
             "frequencies times te once) in exact rationals, the export rules (bounds, floor(t x sr), Nyquist cap, geometry kind x cast x "
             "ignore_errors x raise_on_time_geometries -> converted / skipped / raises) and the two label cascades as decision tables "
             "whose allowed outcomes are the union of the docstring reading and the property-summary reading. MC_Crowsetta.tla runs the "
             "conversions as a state machine (per element: seconds-or-samples, adjust once; per event: convert / skip / raise; the "
             "cascades as implemented) and TLC checks Impl => Req plus the laws (te exactly once on every path, export o import = "
             "identity for te = 1 and value-only labels, cascade table total and deterministic, index wraps, kept events in order, "
             "limb product = integer floor) on "
             "every case of the bounded universe; each case is then executed on the real conversion functions (directly and through "
             "segment / bbox / sequence / annotation) and TLC validates the recorded observations clause by clause. Bounded-exhaustive on "
             "dyadic lattices, plus seeded random cases on larger lattices (incl. te = 10, 3, 5/2 with limb-number comparison)."),
    "note": ("trusted: TLC, binder checks/c10.py + vt/geom.py (encoders), exact float arithmetic on dyadic units; small-scope hypothesis "
             "beyond the enumerated lattice. Not decided: adjust_time_expansion=False, defaults of cast/ignore_errors, whether ignore_errors "
             "may swallow non-ValueError exceptions, select_by_key without an explicit value_only (value or key:value both accepted)."),
    "design_ref": "DESIGN.md section 4 C10",
}
