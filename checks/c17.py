"""C17 binder: crop_dim / extend_dim / adjust_dim_width / crop_dim_width / extend_dim_width.

Encoder only -- the verdict is T_CropExtend's.  The binder builds the regular axis (a4/4, s, n) with data 1..n, forms the
requested interval / width from the case, calls the real API and ships the coordinates before and after (IEEE bit
patterns; limb numbers after) and the data after.  It computes no expected sample set, count or placement.
"""
from __future__ import annotations
import math, warnings
from fractions import Fraction
import numpy as np
import xarray as xr
from soundevent.arrays import operations as ops
from vt.enc import limbs
from checks.c16 import bits

PROPERTY = "C17"
TRACE = "T_CropExtend"
ENUM = {
    "quick":    [dict(module="MC_CropExtend", cfg="MC_CropExtend_quick.cfg", workers=8)],
    # TLC prints interim coverage reports every minute and the engine takes an interim zero for a dead action, so the
    # coverage guard runs on the small sub-universe "cov" (contained in both tiers: an action taken there is taken in them)
    "thorough": [dict(module="MC_CropExtend", cfg="MC_CropExtend_thorough.cfg", workers=16),
                 dict(module="MC_CropExtend", cfg="MC_CropExtend_cov.cfg", workers=4, coverage=True, expect_cases=False)],
}
PROOFS = ["proofs/P_CropExtend.tla"]  # thorough tier: extents contain the axis, exact width, centre offsets for all integers (tlapm)
POOL = 12
CHUNK = 2500
RULE = ("every call of the TLA+ enumeration: crop (step, start, length, interval ends on half/quarter steps inside the axis, "
        "closedness flags); extend (the same with ends up to 2.5 steps outside, step from attribute / estimated, fill 0 / -7); "
        "width (adjust_dim_width and the two helpers directly, widths 1..2n+3, three positions, step from attribute / estimated); "
        "histories of two operations on the same data (extend;extend further out, extend;crop, crop;extend, extend;adjust_dim_width) judged "
        "against the original lattice; non-trivial = the call changes the axis (crop drops, extend adds, width differs from the length)")
TRUSTED_BASE = ["checks/c17.py + checks/c16.py:bits (builds the axis with numpy, interval ends that are coordinates are taken from the "
                "array itself, other ends are the nearest double of the rational; encodes coordinates/data; no expected values)"]
ASSUMPTIONS = ["steps are large against the open-end epsilon 1e-5 (crop/extend use steps >= 0.01 and ends at least a quarter step from "
               "any coordinate they do not coincide with); adjust_dim_width also runs on 1/44100",
               "dyadic steps: exact verdicts for everything; non-representable steps: exact verdicts for counts, sample identity, "
               "placement and fill, coordinates of new samples within ~1e-9 step of the lattice point",
               "boundary guard: on a non-representable step an OPEN end of extend_dim that is nominally a lattice point may or may not be "
               "produced (it is within an ulp of the end); closed ends and all ends on dyadic steps are exact",
               "centre placement with an odd difference may round either way",
               "original samples of extend_dim may be NaN / +inf / -inf (they must survive as such); fills are finite",
               "width calls also run on 2-D arrays along the first and along the second dimension; every row along the operated dimension is judged",
               "sample dtype (float64/float32/int16/int32/uint8/bool) and axis dtype (float64/float32/int64) vary independently on a subset; "
               "float32 axes only on dyadic steps, integer axes only on integer lattices; fills are 0 there",
               "centre placement: the statement says 'centre', so the odd sample may sit on either side (BlockPlacement); the split the "
               "implementation uses (front = extra // 2; crop from n // 2 - w // 2) is tracked as MODEL-DRIFT (Drift/CentreSplit), not demanded",
               "the statement does not say what extend_dim_width puts into new samples nor where their coordinates lie: not judged"]

BAD = -999999


DATA_DTYPES = {"f8": np.float64, "f4": np.float32, "i2": np.int16, "i4": np.int32, "u1": np.uint8}
AXIS_DTYPES = {"f8": np.float64, "f4": np.float32, "i8": np.int64}
SPECIAL = {1: float("nan"), 2: float("inf"), 3: float("-inf")}       # codes of case["sv"]


def _d(x) -> int:
    """Sample value as an integer; NaN / +inf / -inf get the codes CropExtend!SpecialCode(1..3), anything else BAD."""
    x = float(x)
    if math.isnan(x):
        return -999901
    if math.isinf(x):
        return -999902 if x > 0 else -999903
    return int(x) if x == int(x) and abs(x) < 2**30 else BAD


def build(case):
    a = Fraction(case["a4"], 4)
    fs = Fraction(case["s"][0], case["s"][1])
    n = case["n"]
    coords = np.array([float(a + i * fs) for i in range(n)], dtype=float)
    ad, dd = case.get("ad", "f8"), case.get("dd", "f8")
    if ad != "f8":                                                  # dtype of the AXIS: float32 / int64 (integer lattice)
        if ad == "i8" and (a.denominator != 1 or fs.denominator != 1):
            raise ValueError("an integer axis needs an integer start and step")
        coords = coords.astype(AXIS_DTYPES[ad])
    if case.get("src", "attr") == "attr":
        cv = xr.Variable("x", coords, attrs={"step": float(fs)})
    else:
        cv = coords
    data = np.arange(1, n + 1, dtype=float)
    for j, code in enumerate(case.get("sv", [])):
        if code:
            data[j] = SPECIAL[code]                                 # an original sample that is NaN / +inf / -inf
    if dd != "f8":                                                  # dtype of the SAMPLES; a boolean array holds True everywhere
        data = np.ones(n, dtype=bool) if dd == "b1" else data.astype(DATA_DTYPES[dd])
    od = case.get("od", 0)
    if od:
        # 2-D array: sample i of the operated dimension x holds i + 1 + 100*k at index k of the other dimension y
        full = data[:, None].astype(float) + 100.0 * np.arange(od)[None, :]
        dims = ["x", "y"]
        if case.get("ax", 1) == 2:
            full, dims = full.T, ["y", "x"]
        return xr.DataArray(np.ascontiguousarray(full), dims=dims, coords={"x": cv, "y": np.arange(od, dtype=float)}), a, fs
    return xr.DataArray(data, dims=["x"], coords={"x": cv}), a, fs


def endpoint(arr, a, fs, m):
    """Double for the interval end at quarter-step position m: a coordinate of the array itself when it is one."""
    k, r = divmod(m, 4)
    if r == 0 and 0 <= k < arr.sizes["x"]:
        return float(arr.coords["x"].data[k])
    return float(a + Fraction(m, 4) * fs)


def observe(arr, res, raised="", ends=(0.0, 0.0)):
    cin = [bits(x) for x in arr.coords["x"].data]
    eb = {"startb": bits(ends[0]), "stopb": bits(ends[1])}          # the interval ends exactly as they were passed
    if res is None:
        return {"raised": raised, "cin": cin, "cout": [], "lout": [], "data": [], "rows": [[]], **eb}
    co = np.asarray(res.coords["x"].data, dtype=float)
    if res.ndim == 1:
        rows = [[_d(x) for x in np.asarray(res.data)]]
    else:                                                           # one row per index of the other dimension
        rows = [[_d(x) for x in np.asarray(res.isel(y=k).data)] for k in range(res.sizes["y"])]
    return {"raised": "", "cin": cin, "cout": [bits(x) for x in co], "lout": [limbs(x) for x in co],
            "data": rows[0] if rows else [], "rows": rows, **eb}


def apply_op(arr0, cur, a, fs, op, fill):
    """One operation of a history on the current array; interval ends refer to the ORIGINAL axis (arr0)."""
    kw = {}
    if op["op"] in ("crop", "extend"):
        if not op["lc"]:
            kw["left_closed"] = False
        if op["rc"]:
            kw["right_closed"] = True
        start, stop = endpoint(arr0, a, fs, op["ms"]), endpoint(arr0, a, fs, op["me"])
        if op["op"] == "crop":
            return ops.crop_dim(cur, "x", start=start, stop=stop, **kw)
        if fill != 0:
            kw["fill_value"] = fill
        return ops.extend_dim(cur, "x", start=start, stop=stop, **kw)
    if op["op"] == "width":
        return ops.adjust_dim_width(cur, "x", op["w"], position=op["pos"])
    raise ValueError(op["op"])


def execute(case):
    with warnings.catch_warnings():
        warnings.simplefilter("ignore")
        arr, a, fs = build(case)
        k = case["kind"]
        ends = (0.0, 0.0)
        if k in ("crop", "extend"):
            ends = (endpoint(arr, a, fs, case["ms"]), endpoint(arr, a, fs, case["me"]))
        try:
            if k == "crop":
                kw = {}
                if not case["lc"]:
                    kw["left_closed"] = False
                if case["rc"]:
                    kw["right_closed"] = True
                res = ops.crop_dim(arr, "x", start=ends[0], stop=ends[1], **kw)
            elif k == "extend":
                kw = {}
                if not case["lc"]:
                    kw["left_closed"] = False
                if case["rc"]:
                    kw["right_closed"] = True
                if case["fill"] != 0:
                    kw["fill_value"] = case["fill"]
                if not case.get("sn"):
                    kw["start"] = ends[0]
                if not case.get("en"):
                    kw["stop"] = ends[1]                           # sn / en: the argument is omitted (None)
                res = ops.extend_dim(arr, "x", **kw)
            elif k == "chain":
                res = arr
                for op in case["ops"]:
                    res = apply_op(arr, res, a, fs, op, case["fill"])
            elif k == "width":
                w, n, pos = case["w"], case["n"], case["pos"]
                kw = {} if pos == "start" and case["fn"] == "direct" else {"position": pos}
                if case.get("fill", 0) != 0 and (case["fn"] == "adjust" or w > n):
                    kw["fill_value"] = case["fill"]
                if case["fn"] == "adjust":
                    res = ops.adjust_dim_width(arr, "x", w, **kw)
                elif w < n:
                    res = ops.crop_dim_width(arr, "x", w, **kw)
                else:
                    res = ops.extend_dim_width(arr, "x", w, **kw)
            else:
                raise ValueError(k)
        except (ValueError, KeyError, IndexError, ArithmeticError) as ex:
            if k not in ("crop", "extend", "width", "chain"):
                raise
            return observe(arr, None, type(ex).__name__, ends)
        return observe(arr, res, ends=ends)


UNITS = [[1, 1], [1, 10], [1, 4], [1, 3], [1, 100], [2, 1], [1, 2], [250, 1], [1, 8], [1, 7], [3, 10]]
WUNITS = UNITS + [[1, 44100], [1, 22050]]


def random_cases(rng, tier):
    k = 1 if tier == "quick" else 6
    for _ in range(120 * k):
        n = rng.randrange(1, 120)
        ms = rng.randrange(0, 4 * (n - 1) + 1)
        me = rng.randrange(ms, 4 * (n - 1) + 1)
        yield {"kind": "crop", "s": rng.choice(UNITS), "a4": rng.randrange(-40, 41), "n": n, "ms": ms, "me": me,
               "lc": rng.random() < 0.5, "rc": rng.random() < 0.5}
    for _ in range(120 * k):
        src = rng.choice(["attr", "est"])
        n = rng.randrange(2 if src == "est" else 1, 80)
        lc, rc = rng.random() < 0.5, rng.random() < 0.5
        ms = -rng.randrange(0 if lc else 1, 60)
        me = 4 * (n - 1) + rng.randrange(0 if rc else 1, 60)
        none = rng.choice([dict(sn=False, en=False)] * 3 + [dict(sn=True, en=False), dict(sn=False, en=True), dict(sn=True, en=True)])
        if none["sn"]:
            ms = 0                                                  # start omitted: the interval begins at the first coordinate
        if none["en"]:
            me = 4 * (n - 1)
        yield {"kind": "extend", "s": rng.choice(UNITS), "a4": rng.randrange(-40, 41), "n": n, "src": src, "ms": ms, "me": me,
               "lc": lc, "rc": rc, "fill": rng.choice([0, -7]),
               "sv": [rng.choice([0, 0, 0, 1, 2, 3]) if rng.random() < 0.5 else 0 for _ in range(n)],
               **none}
    for _ in range(160 * k):
        src = rng.choice(["attr", "est"])
        n = rng.randrange(2 if src == "est" else 1, 100)
        w = rng.choice([rng.randrange(1, 3 * n + 2), n, n + 1, max(1, n - 1)])
        fn = rng.choice(["adjust", "adjust", "direct"])
        if w == n:
            fn = "adjust"
        s = rng.choice(WUNITS)
        yield {"kind": "width", "fn": fn, "s": s, "a4": rng.randrange(-4, 5) if s[1] > 1000 else rng.randrange(-40, 41),
               "n": n, "src": src, "w": w, "pos": rng.choice(["start", "center", "end"]),
               **(dict(od=rng.randrange(1, 12), ax=rng.choice([1, 2])) if rng.random() < 0.4 else dict(od=0, ax=1))}
    yield from random_chains(rng, 100 * k)
    for _ in range(120 * k):                                        # sample / axis dtypes on longer axes
        s = rng.choice([[1, 1], [2, 1], [1, 4], [1, 10], [1, 3]])
        ad = rng.choice(["f8", "f8", "i8"]) if s[1] == 1 else rng.choice(["f8", "f8", "f4"]) if s == [1, 4] else "f8"
        dd = rng.choice(["i2", "i4", "u1", "f4", "b1", "f8"])
        n = rng.randrange(1, 40)
        a4 = 4 * rng.randrange(-5, 6)
        kind = rng.choice(["crop", "extend", "width"])
        if kind == "crop":
            ms = rng.randrange(0, 4 * (n - 1) + 1)
            yield {"kind": "crop", "s": s, "a4": a4, "n": n, "ms": ms, "me": rng.randrange(ms, 4 * (n - 1) + 1), "lc": rng.random() < 0.5,
                   "rc": rng.random() < 0.5, "dd": dd, "ad": ad}
        elif kind == "extend":
            lc, rc = rng.random() < 0.5, rng.random() < 0.5
            yield {"kind": "extend", "s": s, "a4": a4, "n": n, "src": "attr", "ms": -rng.randrange(0 if lc else 1, 40),
                   "me": 4 * (n - 1) + rng.randrange(0 if rc else 1, 40), "lc": lc, "rc": rc, "fill": 0, "sv": [0] * n, "dd": dd, "ad": ad}
        else:
            yield {"kind": "width", "fn": "adjust", "s": s, "a4": a4, "n": n, "src": "attr", "w": rng.randrange(1, n + 14),
                   "pos": rng.choice(["start", "center", "end"]), "od": 0, "ax": 1, "dd": dd, "ad": ad}


def _op(op, ms=0, me=0, lc=True, rc=True, w=0, pos=""):
    return {"op": op, "ms": ms, "me": me, "lc": lc, "rc": rc, "w": w, "pos": pos}


def random_chains(rng, count):
    """extend;extend further out and crop;extend on longer axes (same restrictions as the enumerated histories)."""
    for _ in range(count):
        n = rng.randrange(1, 40)
        last = 4 * (n - 1)
        s = rng.choice(UNITS)
        if rng.random() < 0.6:
            lc1 = rng.random() < 0.5
            ms1 = -rng.randrange(0 if lc1 else 1, 30)
            me1 = last + rng.randrange(0, 30)
            dl, dr = rng.randrange(0, 30), rng.randrange(0, 30)
            lc2 = True if dl == 0 else rng.random() < 0.5
            o = [_op("extend", ms1, me1, lc1, True), _op("extend", ms1 - dl, me1 + dr, lc2, True)]
        else:
            ms1 = 2 * rng.randrange(0, last // 2 + 1)
            me1 = 2 * rng.randrange(ms1 // 2, last // 2 + 1)
            lc1 = rng.random() < 0.5
            if not any((4 * i >= ms1 if lc1 else 4 * i > ms1) and (4 * i < me1 if lc1 else 4 * i <= me1) for i in range(n)):
                continue                                                       # generator restriction: the crop keeps something
            o = [_op("crop", ms1, me1, lc1, not lc1), _op("extend", ms1 - rng.randrange(1, 30), me1 + rng.randrange(1, 30), True, True)]
        yield {"kind": "chain", "s": s, "a4": rng.randrange(-40, 41), "n": n, "src": "attr", "fill": rng.choice([0, -7]), "ops": o}


def nontrivial(o):
    c = o["in"]
    if c["kind"] == "chain":
        return True
    if c["kind"] == "width":
        return c["w"] != c["n"]
    if c["kind"] == "crop":
        return c["ms"] > 0 or c["me"] < 4 * (c["n"] - 1) or not c["lc"] or not c["rc"]
    return c["ms"] <= -4 or c["me"] >= 4 * c["n"]


MANIFEST = {
    "text": ("CropExtend.tla states crop_dim / extend_dim / adjust_dim_width on the quarter-step lattice of a regular axis whose "
             "sample i carries the datum i+1: crop = indices whose coordinate lies in the interval with the requested closedness; "
             "extend = the lattice points of the axis' own lattice inside the interval, old samples on their old coordinates "
             "(same doubles), new ones = fill; width = exactly w samples with the original block at start / centre (floor or "
             "ceil) / end. MC_CropExtend.tla transcribes the three implementations as state machines with the open-end epsilon "
             "as an infinitesimal and the floating-point length of np.arange as explicit nondeterminism ('q or q+1' on "
             "non-representable steps); TLC checks Impl => Req and the laws of Req on the bounded universe and shows the two "
             "defects found (spec/history: extend_dim_width returning width+1; extend_dim returning the point at an open end) "
             "and their absence in the repaired algorithms. Every enumerated call (6-10 steps incl. 0.1, 0.01, 1/3, 1/44100; "
             "lengths <= 6-7; all interval ends on half/quarter steps; widths 1..2n+3; step from attribute or estimated) plus "
             "histories of two operations on the same data (extend;extend further out, extend;crop, crop;extend, extend;adjust_dim_width: "
             "CropExtend!Final composes Req on the original lattice, the machine starts the second operation from the first one's "
             "output), and seeded random calls and histories on longer axes, is executed on the real code and TLC validates the recorded coordinates "
             "(IEEE bit patterns, compared in TLA+) and data clause by clause. Thorough tier adds division-free laws for all "
             "integers proved by tlapm."),
    "note": ("trusted: TLC, the binder checks/c17.py (builds axes with numpy, encodes doubles; no expected values). Exact verdicts for "
             "sample identity, counts, placement, fill and coordinate identity on every step; coordinates of new samples exact on "
             "dyadic steps and within ~1e-9 step otherwise. Boundary guard: on a non-representable step the lattice point "
             "nominally AT an open end of extend_dim is accepted iff the double produced is strictly inside the interval. Not "
             "judged (not in the statement): values/coordinates of the samples added by extend_dim_width, None defaults of "
             "start/stop, steps comparable to the 1e-5 epsilon. Bounded universe + seeded random; small-scope hypothesis beyond."),
    "design_ref": "DESIGN.md section 4 C17, section 5 F14",
}
