"""C17 binder: crop_dim / extend_dim / adjust_dim_width / crop_dim_width / extend_dim_width.

Encoder only -- the verdict is T_CropExtend's.  The binder builds the regular axis (a4/4, s, n) with data 1..n, forms the
requested interval / width from the case, calls the real API and ships the coordinates before and after (IEEE bit
patterns; limb numbers after) and the data after.  It computes no expected sample set, count or placement.
"""
from __future__ import annotations
import math, warnings
from fractions import Fraction
import numpy as np
import xarray as xr
from soundevent.arrays import operations as ops
from vt.enc import limbs
from checks.c16 import bits

PROPERTY = "C17"
TRACE = "T_CropExtend"
ENUM = {
    "quick":    [dict(module="MC_CropExtend", cfg="MC_CropExtend_quick.cfg", workers=8)],
    "thorough": [dict(module="MC_CropExtend", cfg="MC_CropExtend_thorough.cfg", workers=16, coverage=True)],
}
POOL = 12
CHUNK = 2500
RULE = ("every call of the TLA+ enumeration: crop (step, start, length, interval ends on half/quarter steps inside the axis, "
        "closedness flags); extend (the same with ends up to 2.5 steps outside, step from attribute / estimated, fill 0 / -7); "
        "width (adjust_dim_width and the two helpers directly, widths 1..2n+3, three positions, step from attribute / estimated); "
        "non-trivial = the call changes the axis (crop drops, extend adds, width differs from the length)")
TRUSTED_BASE = ["checks/c17.py + checks/c16.py:bits (builds the axis with numpy, interval ends that are coordinates are taken from the "
                "array itself, other ends are the nearest double of the rational; encodes coordinates/data; no expected values)"]
ASSUMPTIONS = ["steps are large against the open-end epsilon 1e-5 (crop/extend use steps >= 0.01 and ends at least a quarter step from "
               "any coordinate they do not coincide with); adjust_dim_width also runs on 1/44100",
               "dyadic steps: exact verdicts for everything; non-representable steps: exact verdicts for counts, sample identity, "
               "placement and fill, coordinates of new samples within ~1e-9 step of the lattice point",
               "boundary guard: on a non-representable step an OPEN end of extend_dim that is nominally a lattice point may or may not be "
               "produced (it is within an ulp of the end); closed ends and all ends on dyadic steps are exact",
               "centre placement with an odd difference may round either way",
               "the statement does not say what extend_dim_width puts into new samples nor where their coordinates lie: not judged"]

BAD = -999999


def _d(x) -> int:
    x = float(x)
    return int(x) if math.isfinite(x) and x == int(x) and abs(x) < 2**30 else BAD


def build(case):
    a = Fraction(case["a4"], 4)
    fs = Fraction(case["s"][0], case["s"][1])
    n = case["n"]
    coords = np.array([float(a + i * fs) for i in range(n)], dtype=float)
    if case.get("src", "attr") == "attr":
        cv = xr.Variable("x", coords, attrs={"step": float(fs)})
    else:
        cv = coords
    return xr.DataArray(np.arange(1, n + 1, dtype=float), dims=["x"], coords={"x": cv}), a, fs


def endpoint(arr, a, fs, m):
    """Double for the interval end at quarter-step position m: a coordinate of the array itself when it is one."""
    k, r = divmod(m, 4)
    if r == 0 and 0 <= k < arr.sizes["x"]:
        return float(arr.coords["x"].data[k])
    return float(a + Fraction(m, 4) * fs)


def observe(arr, res, raised="", ends=(0.0, 0.0)):
    cin = [bits(x) for x in arr.coords["x"].data]
    eb = {"startb": bits(ends[0]), "stopb": bits(ends[1])}          # the interval ends exactly as they were passed
    if res is None:
        return {"raised": raised, "cin": cin, "cout": [], "lout": [], "data": [], **eb}
    co = np.asarray(res.coords["x"].data, dtype=float)
    return {"raised": "", "cin": cin, "cout": [bits(x) for x in co], "lout": [limbs(x) for x in co],
            "data": [_d(x) for x in np.asarray(res.data).ravel()], **eb}


def execute(case):
    with warnings.catch_warnings():
        warnings.simplefilter("ignore")
        arr, a, fs = build(case)
        k = case["kind"]
        ends = (0.0, 0.0)
        if k in ("crop", "extend"):
            ends = (endpoint(arr, a, fs, case["ms"]), endpoint(arr, a, fs, case["me"]))
        try:
            if k == "crop":
                kw = {}
                if not case["lc"]:
                    kw["left_closed"] = False
                if case["rc"]:
                    kw["right_closed"] = True
                res = ops.crop_dim(arr, "x", start=ends[0], stop=ends[1], **kw)
            elif k == "extend":
                kw = {}
                if not case["lc"]:
                    kw["left_closed"] = False
                if case["rc"]:
                    kw["right_closed"] = True
                if case["fill"] != 0:
                    kw["fill_value"] = case["fill"]
                res = ops.extend_dim(arr, "x", start=ends[0], stop=ends[1], **kw)
            elif k == "width":
                w, n, pos = case["w"], case["n"], case["pos"]
                kw = {} if pos == "start" and case["fn"] == "direct" else {"position": pos}
                if case["fn"] == "adjust":
                    res = ops.adjust_dim_width(arr, "x", w, **kw)
                elif w < n:
                    res = ops.crop_dim_width(arr, "x", w, **kw)
                else:
                    res = ops.extend_dim_width(arr, "x", w, **kw)
            else:
                raise ValueError(k)
        except (ValueError, KeyError, IndexError, ArithmeticError) as ex:
            if k not in ("crop", "extend", "width"):
                raise
            return observe(arr, None, type(ex).__name__, ends)
        return observe(arr, res, ends=ends)


UNITS = [[1, 1], [1, 10], [1, 4], [1, 3], [1, 100], [2, 1], [1, 2], [250, 1], [1, 8], [1, 7], [3, 10]]
WUNITS = UNITS + [[1, 44100], [1, 22050]]


def random_cases(rng, tier):
    k = 1 if tier == "quick" else 6
    for _ in range(120 * k):
        n = rng.randrange(1, 120)
        ms = rng.randrange(0, 4 * (n - 1) + 1)
        me = rng.randrange(ms, 4 * (n - 1) + 1)
        yield {"kind": "crop", "s": rng.choice(UNITS), "a4": rng.randrange(-40, 41), "n": n, "ms": ms, "me": me,
               "lc": rng.random() < 0.5, "rc": rng.random() < 0.5}
    for _ in range(120 * k):
        src = rng.choice(["attr", "est"])
        n = rng.randrange(2 if src == "est" else 1, 80)
        lc, rc = rng.random() < 0.5, rng.random() < 0.5
        ms = -rng.randrange(0 if lc else 1, 60)
        me = 4 * (n - 1) + rng.randrange(0 if rc else 1, 60)
        yield {"kind": "extend", "s": rng.choice(UNITS), "a4": rng.randrange(-40, 41), "n": n, "src": src, "ms": ms, "me": me,
               "lc": lc, "rc": rc, "fill": rng.choice([0, -7])}
    for _ in range(160 * k):
        src = rng.choice(["attr", "est"])
        n = rng.randrange(2 if src == "est" else 1, 100)
        w = rng.choice([rng.randrange(1, 3 * n + 2), n, n + 1, max(1, n - 1)])
        fn = rng.choice(["adjust", "adjust", "direct"])
        if w == n:
            fn = "adjust"
        s = rng.choice(WUNITS)
        yield {"kind": "width", "fn": fn, "s": s, "a4": rng.randrange(-4, 5) if s[1] > 1000 else rng.randrange(-40, 41),
               "n": n, "src": src, "w": w, "pos": rng.choice(["start", "center", "end"])}


def nontrivial(o):
    c = o["in"]
    if c["kind"] == "width":
        return c["w"] != c["n"]
    if c["kind"] == "crop":
        return c["ms"] > 0 or c["me"] < 4 * (c["n"] - 1) or not c["lc"] or not c["rc"]
    return c["ms"] <= -4 or c["me"] >= 4 * c["n"]
