"""X04 binder (extension): io.save / io.load dispatch -- formats, suffixes, load type, tampered files.
Encoder only: the verdict is T_Dispatch's."""
import json, os, random, shutil, tempfile
from pathlib import Path
from soundevent import data, io
from checks import aoef_common as ac

PROPERTY = "X04"
TRACE = "T_Dispatch"
ENUM = {
    "quick":    [dict(module="MC_Dispatch", cfg="MC_Dispatch_quick.cfg", workers=8)],
    "thorough": [dict(module="MC_Dispatch", cfg="MC_Dispatch_thorough.cfg", workers=16, coverage=True)],
}
POOL = 12
CHUNK = 3000
WORK = Path(__file__).resolve().parent.parent / ".work" / "dispatch_tmp"
CT = ["recording_set", "dataset", "annotation_set", "annotation_project", "evaluation_set", "prediction_set", "model_run", "evaluation"]
RULE = ("collection type x what is handed to save (collection / user subclass / not a collection) x file suffix x format argument of "
        "save x missing parent directories x format argument of load x type argument of load x tampering between save and load "
        "(version, file removed, garbage, unknown collection_type, renamed to .json); the world saved is a random object graph derived "
        "from the case; non-trivial = the save succeeds and the load is attempted with at least one fault or a non-default argument")
TRUSTED_BASE = ["checks/x04.py (build object, call io.save / io.load, tamper with the file, report exception classes)",
                "checks/aoef_common.py build_world / random_world / diff"]
ASSUMPTIONS = ["'ValueError' stands for ValueError and its subclasses (pydantic's ValidationError is one)"]
EXTENSION = {
    "title": "io.save / io.load dispatch and refusal rules",
    "text": ("Dispatch.tla states which faults a save / load call has (format cannot be inferred, unknown format, unsupported object, "
             "file missing, not a .json file, unparsable, unknown collection type, version mismatch, type mismatch) and the exception "
             "class of each; a call without faults succeeds, writes the file (creating parent directories) and loads back an object of "
             "the collection's own class equal to the saved one. MC_Dispatch.tla is the implementation's order of checks as a step "
             "machine; TLC proves that its outcome is accepted by the fault relation on every case and that it terminates; the real "
             "calls are validated by TLC against the fault relation (violations) and against the step machine (drift, advisory)."),
}


def _cls(ex):
    return "ValueError" if isinstance(ex, ValueError) else type(ex).__name__


def _call(fn):
    try:
        return "ok", fn()
    except Exception as ex:                       # the library's refusal is the observation
        return _cls(ex), None


_SUB = {}


def _subclass(obj):
    base = type(obj)
    sub = _SUB.setdefault(base, type("My" + base.__name__, (base,), {}))
    return sub(**{f: getattr(obj, f) for f in base.model_fields})


def execute(case):
    WORK.mkdir(parents=True, exist_ok=True)
    tmp = Path(tempfile.mkdtemp(prefix="x04_", dir=str(WORK)))
    try:
        ctype = CT[case["ct"] - 1]
        rng = random.Random(json.dumps({k: case[k] for k in ("ct", "obj", "sfx", "sfmt", "lfmt", "ltype", "tamper", "nested")}, sort_keys=True))
        world = ac.random_world(rng, ctype, dups=False)   # repeated members are the subject of C01/C02 (open findings), not of the dispatch rules
        world["audio"] = "none"
        root, _rev, recs = ac.build_world(world, tmp / "audio")
        given = root
        if case["obj"] == "subclass":
            given = _subclass(root)
        elif case["obj"] == "not_a_collection":
            given = recs[0] if recs else data.Recording(path="a.wav", duration=1, channels=1, samplerate=8000)
        parent = tmp / "deep" / "er" if case["nested"] else tmp
        f = parent / ("doc" + case["sfx"])
        kw = {"default": {}, "aoef": {"format": "aoef"}, "none": {"format": None}, "csv": {"format": "csv"}}
        save, _ = _call(lambda: io.save(given, f, **kw[case["sfmt"]]))
        out = {"save": save, "exists": f.is_file(), "parent_made": parent.is_dir(), "load": "skipped", "cls": "", "equal": False}
        if save != "ok" or not f.is_file():
            return out
        t = case["tamper"]
        if t == "missing":
            f.unlink()
        elif t == "garbage":
            f.write_text("{not json")
        elif t in ("version", "unknown_ctype"):
            d = json.loads(f.read_text())
            if t == "version":
                d["version"] = "0.0.0"
            else:
                d["data"]["collection_type"] = "no_such_collection"
            f.write_text(json.dumps(d))
        elif t == "renamed_json":
            g = parent / "doc.json"
            f.rename(g)
            f = g
        lkw = dict(kw[case["lfmt"]])
        if case["ltype"]:
            lkw["type"] = CT[case["ltype"] - 1]
        load, obj = _call(lambda: io.load(f, **lkw))
        out["load"] = load
        if load == "ok":
            out["cls"] = next((k for k, c in ac.CTYPE_CLASS.items() if type(obj) is c), type(obj).__name__)
            out["equal"] = ac.diff(root, obj) == []
        return out
    finally:
        shutil.rmtree(tmp, ignore_errors=True)


def nontrivial(o):
    c, r = o["in"], o["out"]
    return r.get("save") == "ok" and (c["tamper"] != "no" or c["ltype"] != 0 or c["lfmt"] != "default" or c["sfx"] != ".json")
