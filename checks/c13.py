"""C13 binder: group_sound_events.  Encoder only -- the verdict is T_Grouping's.

A case is {"n": n, "id": [identifier of the event at each list position], "e": [[a, b], ...]} with e a relation on event
identifiers, a <= b ((a, a) = what the comparison function answers for an event the list holds twice).  The binder
builds one real SoundEvent per identifier, lays them out by "id" (twin positions: the same object / an equal copy),
passes a comparison function that answers by looking the (unordered) identifier pair up in the relation and logs its
arguments, and records the returned sequences and the call log as identifiers.
"""
import sys, inspect
import functools
import uuid
import numpy as np
from soundevent import data
from soundevent.geometry import group_sound_events

PROPERTY = "C13"
TRACE = "T_Grouping"
ENUM = {
    "quick":    [dict(module="MC_Grouping", cfg="MC_Grouping_quick.cfg", workers=8)],
    "thorough": [dict(module="MC_Grouping", cfg="MC_Grouping_thorough.cfg", workers=16, coverage=True)],
}
POOL = 12
CHUNK = 3000
RULE = ("every graph (symmetric irreflexive relation) on 0..5 (quick) / 0..6 (thorough) input positions from the TLA+ "
        "enumeration plus random graphs on 7..12 positions (chains in shuffled order, stars, cliques, cycles, sparse and "
        "dense random), plus lists that hold an event at several positions (twins: every partition of <= 4 (quick) / <= 5 "
        "(thorough) positions into twin classes x every relation on the events incl. f(a, a); random ones with 1..3 repeats); "
        "a size class of lists of 129..300 events with sparse relations touching positions >= 128 and >= 256 (3 quick / 8 "
        "thorough); every non-empty set of events without geometry on lists of <= 4 positions (random otherwise); "
        "relations given as disjoint cliques, once per thorough run two cliques of 258 events (more than 2^16 similar pairs); "
        "every non-empty set of events that are instances of a user subclass of SoundEvent on lists of <= 3 positions (random "
        "otherwise); the comparison function comes as plain function, lambda, partial, bound method, callable object and falsy callable "
        "object (every guise for lists of <= 3 (quick) / <= 4 (thorough) positions, random otherwise), also looks at the "
        "geometry of its arguments when events lack one, and logs whether its arguments equal the input events; "
        "it answers as bool, numpy.bool_ or int (all three for every graph on <= 4 (quick) / <= 5 "
        "(thorough) positions, random otherwise); each executed twice (distinct geometries, twins = the same object / events identical up to their uuid, twins = equal "
        "copies); "
        "non-trivial = at least one edge and at least two components or a component that needs a chain of >= 2 links")
TRUSTED_BASE = ["checks/c13.py (build SoundEvents, comparison function = table lookup + argument log, "
                "map returned events back to identifiers by uuid)"]
ASSUMPTIONS = ["similar = the comparison function's answer is true in Python's sense (bool, numpy.bool_, int 0/1 are generated; "
               "other truthy objects such as non-empty lists are not: the signature promises a bool)",
               "the comparison function is symmetric and sees events, not positions; a list may hold an event twice (twins)",
               "reachability for 7..12 nodes is computed in TLA+ by the validator (closure iterated at most n times)"]

_REC = data.Recording(path="a.wav", duration=1000.0, channels=1, samplerate=8000)
# the statement quantifies over ANY list of sound events: they need not belong to one recording
_RECS = [_REC, data.Recording(path="b.wav", duration=500.0, channels=2, samplerate=44100),
         data.Recording(path="c.wav", duration=10.0, channels=1, samplerate=16000)]


class _StationEvent(data.SoundEvent):
    """What a user of the library may write: a sound event that also knows on which station it was recorded."""
    station: str = "unknown"


def _event(a, variant, geometry=True, subclass=False):
    if subclass:          # an instance of a user subclass, with a value in its own field: still an input sound event
        base = _event(a, variant, geometry)
        return _StationEvent(uuid=base.uuid, recording=base.recording, geometry=base.geometry, station=f"st{a}")
    if not geometry:      # SoundEvent(geometry=None): legal, and still an event the comparison function may link
        return data.SoundEvent(uuid=uuid.UUID(int=7000 + 100 * variant + a), recording=_RECS[a % 3] if variant == 0 else _REC,
                               geometry=None)
    if variant == 0:      # all different, spread over three recordings (neighbouring events on different ones)
        g = data.TimeInterval(coordinates=[float(a), float(a) + 0.5])
        rec = _RECS[a % 3]
    else:                 # identical up to the uuid
        g = data.TimeInterval(coordinates=[1.0, 2.0])
        rec = _REC
    return data.SoundEvent(uuid=uuid.UUID(int=7000 + 100 * variant + a), recording=rec, geometry=g)


def _events(ids, variant, ng=(), sub=()):
    """One event per identifier (those in ng without a geometry).  Twin positions hold the very same object (variant 0)
    or separately built equal objects with the same uuid (variant 1)."""
    if variant == 0:
        made = {}
        return [made.setdefault(a, _event(a, 0, a not in ng, a in sub)) for a in ids]
    return [_event(a, 1, a not in ng, a in sub) for a in ids]


_RET = {"bool": bool, "np_bool": np.bool_, "int": int}


class _Rule:
    """A comparison rule as an object."""
    def __init__(self, fn):
        self.fn = fn

    def __call__(self, a, b):
        return self.fn(a, b)

    def similar(self, a, b):
        return self.fn(a, b)


class _RuleWithExceptions(_Rule):
    """... holding an (empty) list of exceptions: len(rule) == 0, so the object is falsy."""
    exceptions = ()

    def __len__(self):
        return len(self.exceptions)


class _QuietRule(_Rule):
    def __bool__(self):
        return False


def _guise(name, fn):
    """The same comparison function in different shapes; every one of them is a callable."""
    if name == "function":
        return fn
    if name == "lambda":
        return lambda a, b: fn(a, b)
    if name == "partial":
        return functools.partial(lambda tag, a, b: fn(a, b), "rule")
    if name == "method":
        return _Rule(fn).similar
    if name == "object":
        return _Rule(fn)
    if name == "falsy_len":
        return _RuleWithExceptions(fn)
    if name == "falsy_bool":
        return _QuietRule(fn)
    raise ValueError(name)


def _run(case, variant):
    ids = case["id"]
    rel = {(a, b) for a, b in case["e"]} | {(b, a) for a, b in case["e"]}       # on identifiers, incl. (a, a) for twins
    block = {}                                   # relation given as disjoint cliques over the positions: same clique = similar
    if case.get("cl"):
        pos = 0
        for b, size in enumerate(case["cl"]):
            for _ in range(size):
                pos += 1
                block[pos] = b
    events = _events(ids, variant, set(case.get("ng", [])), set(case.get("sub", [])))
    ident = {ev.uuid: a for ev, a in zip(events, ids)}
    calls = []

    def identifier(x):
        return ident.get(getattr(x, "uuid", None), 0)

    answer = _RET[case.get("ret", "bool")]       # the type in which the comparison function hands its answer back

    by_id = {}
    for ev, a in zip(events, ids):
        by_id.setdefault(a, ev)
    gd = case.get("gd", False)
    input_objects = {id(e) for e in events}
    identity = []                                 # per call: are the arguments the very input objects? (recorded, not judged)

    def compare(se1, se2):
        a, b = identifier(se1), identifier(se2)
        # shipped facts: does each argument equal, in every field, the input event of its identifier?
        fa = int(a != 0 and bool(se1 == by_id[a]))
        fb = int(b != 0 and bool(se2 == by_id[b]))
        calls.append([a, b, fa, fb])
        if len(identity) < 2000:      # recorded for the reader, not judged; capped on very long lists
            identity.append([id(se1) in input_objects, id(se2) in input_objects])
        looks = True
        if gd:      # a function that also looks at its arguments: geometry present / absent as the input event has it
            looks = all(x is not None and y is not None and (x.geometry is None) == (y.geometry is None)
                        for x, y in ((se1, by_id.get(a)), (se2, by_id.get(b))))
        similar = (block[a] == block[b]) if block else ((a, b) in rel)
        return answer(bool(similar) and looks)

    comparison_fn = _guise(case.get("guise", "function"), compare)
    old_limit = sys.getrecursionlimit()
    try:
        if case.get("deep"):
            sys.setrecursionlimit(len(inspect.stack(0)) + 80)
        result = group_sound_events(events, comparison_fn)
    except Exception as ex:
        return {"raised": type(ex).__name__, "seqs": [], "calls": calls, "ident": identity}
    finally:
        sys.setrecursionlimit(old_limit)
    seqs = []
    for s in result:
        if not isinstance(s, data.Sequence):
            raise TypeError(f"group_sound_events returned a {type(s).__name__}")
        # a member counts as the input event a only if it equals it, class included (0 = not one of the input events)
        seqs.append([a if (a and type(x) is type(by_id[a]) and bool(x == by_id[a])) else 0
                     for x, a in ((x, identifier(x)) for x in s.sound_events)])
    return {"raised": "", "seqs": seqs, "calls": calls, "ident": identity}


def execute(case):
    if case.get("cl") and case["n"] > 100:       # hundreds of densely similar events: one run (O(n^2) logged calls)
        return {"runs": [_run(case, 0)]}
    return {"runs": [_run(case, 0), _run(case, 1)]}


_GUISES = ["function", "lambda", "partial", "method", "object", "falsy_len", "falsy_bool"]


def _graph(n, edges, ids=None, loops=(), ret="bool", ng=(), gd=False, guise="function", sub=()):
    """edges / loops are on identifiers; without ids every position holds its own event."""
    es = sorted({(min(a, b), max(a, b)) for a, b in edges if a != b} | {(a, a) for a in loops})
    return {"n": n, "id": list(ids) if ids else list(range(1, n + 1)), "e": [list(e) for e in es], "ret": ret,
            "ng": sorted(ng), "gd": bool(gd), "guise": guise, "sub": sorted(sub), "cl": []}


def random_cases(rng, tier):
    """Graphs on 7..12 events (a third of them with 1..3 events repeated in the list) -- larger than TLC enumerates;
    judged by the same TLA+ clauses."""
    yield from _large_cases(rng, tier)
    for sizes in ([3, 2, 4], [1, 5, 1, 2]):                      # relations given as disjoint cliques
        yield dict(_graph(sum(sizes), []), cl=sizes)
    if tier == "thorough":        # more than 2**16 similar pairs: two all-similar groups of 258 events (66 306 pairs)
        yield dict(_graph(516, []), cl=[258, 258])
    count = 300 if tier == "quick" else 3000
    for k in range(count):
        n = rng.randrange(7, 13)
        nodes = list(range(1, n + 1))
        rng.shuffle(nodes)
        mode = k % 8
        if mode == 0:       # one chain through all nodes in shuffled order (diameter n - 1)
            e = list(zip(nodes, nodes[1:]))
        elif mode == 1:     # several chains
            cuts = sorted(rng.sample(range(1, n), rng.randrange(1, 4)))
            e = [(a, b) for i, (a, b) in enumerate(zip(nodes, nodes[1:]), start=1) if i not in cuts]
        elif mode == 2:     # stars
            hubs = nodes[:rng.randrange(1, 4)]
            e = [(rng.choice(hubs), x) for x in nodes[len(hubs):] if rng.random() < 0.8]
        elif mode == 3:     # disjoint cliques
            k_ = rng.randrange(2, 5)
            blocks = [nodes[i::k_] for i in range(k_)]
            e = [(a, b) for bl in blocks for a in bl for b in bl if a < b]
        elif mode == 4:     # cycle plus isolated nodes
            m = rng.randrange(3, n + 1)
            cyc = nodes[:m]
            e = list(zip(cyc, cyc[1:] + cyc[:1]))
        elif mode == 5:     # sparse random, around the connectivity threshold
            p = rng.choice([0.5, 1.0, 1.5, 2.0]) / n
            e = [(a, b) for a in range(1, n + 1) for b in range(a + 1, n + 1) if rng.random() < p]
        elif mode == 6:     # dense random
            p = rng.choice([0.5, 0.8, 1.0])
            e = [(a, b) for a in range(1, n + 1) for b in range(a + 1, n + 1) if rng.random() < p]
        else:               # random forest
            e = [(nodes[i], nodes[rng.randrange(0, i)]) for i in range(1, n) if rng.random() < 0.75]
        if k % 3 == 2:      # the list repeats some events: n identifiers spread over n + extra positions (twins)
            extra = rng.randrange(1, 4)
            ids = list(range(1, n + 1)) + [rng.randrange(1, n + 1) for _ in range(extra)]
            rng.shuffle(ids)
            rep = {a for a in ids if ids.count(a) >= 2}
            yield _graph(len(ids), e, ids, [a for a in rep if rng.random() < 0.5],       # f(a, a): both answers
                         ret=rng.choice(["bool", "np_bool", "int"]))
        else:
            ng = rng.sample(range(1, n + 1), rng.choice([0, 1, 1, 2, 3])) if k % 3 == 1 else []     # events without geometry
            yield _graph(n, e, ret=rng.choice(["bool", "np_bool", "int"]), ng=ng, gd=bool(ng) and rng.random() < 0.7,
                         guise=rng.choice(_GUISES),
                         sub=rng.sample(range(1, n + 1), rng.choice([0, 0, 1, 2, 3])))


def _large_cases(rng, tier):
    """Size class: lists of 129..300 events with a very sparse relation (disjoint short chains) whose edges touch list
    positions >= 128 and >= 256 -- index arithmetic in narrow integer types shows only there.  O(n^2) comparison calls."""
    sizes = [129, rng.randrange(130, 256), rng.randrange(257, 301)] if tier == "quick" else \
            [129, 130, 200, 256, 257, 300] + [rng.randrange(129, 301) for _ in range(2)]
    for n in sizes:
        hi = [a for a in (128, 129, 256, 257, n) if a <= n]         # 1-based positions 129.. = 0-based >= 128
        edges = [(1, 129)] if n == 129 else []
        for a in hi:
            edges.append((rng.randrange(1, 128), a))                 # a low position linked to a high one
        if n > 140:
            b = rng.randrange(131, n + 1)
            edges.append((b - 1, b))                                 # two high neighbours
            edges.append((rng.randrange(1, 100), b))
        yield _graph(n, edges)
    # one chain through 120 events listed in chain order (and, thorough, in reverse), grouped under a recursion limit
    # 80 frames above the caller: a walk that descends one frame per link of the chain dies here as it would at ~1000
    # links under the default limit; an iterative or breadth-bounded walk does not notice (the unchanged code needs < 45 frames)
    for rev in ([False] if tier == "quick" else [False, True]):
        n = 120
        g = _graph(n, [(a, a + 1) for a in range(1, n)])
        if rev:
            g["id"] = g["id"][::-1]
        g["deep"] = True
        yield g


def nontrivial(o):
    c = o["in"]
    if not c["e"]:
        return False
    seqs = o["out"]["runs"][0]["seqs"] if "runs" in o["out"] else []
    rel = {tuple(e) for e in c["e"]}
    chain = any(len(s) >= 3 and any((min(a, b), max(a, b)) not in rel for a in s for b in s if a != b) for s in seqs)
    return len(seqs) >= 2 or chain


MANIFEST = {
    "text": ("Grouping.tla states the result of group_sound_events on graphs over the list positions, which may hold one event "
             "twice (partition, input order "
             "inside blocks, same block iff connected, reachability as an iterated closure cross-checked by TLC against "
             "Warshall, the least-equivalence law and the equivalence laws); MC_Grouping.tla is the implementation as a state "
             "machine (one step per unordered pair building the symmetric matrix and the call log, breadth-first component "
             "labelling, regrouping by label) and TLC proves Impl => Req and termination for every graph on <= 5 nodes "
             "(quick) / <= 6 nodes (thorough, 33 868 graphs); every graph is then run on the real function with a logging "
             "table-lookup comparison function answering as bool / numpy.bool_ / int, handed over in seven guises (incl. falsy callable objects), logging whether its "
             "arguments equal the input events, with events that have no geometry, twice (distinct / identical-up-to-uuid events), plus random graphs on 7-12 "
             "nodes a size class of 129-300 events, events of a user subclass, and (thorough) two cliques of 258 events, and TLC validates sequences and call log clause by clause."),
    "note": ("trusted: TLC, binder checks/c13.py (encoder: positions by uuid); exhaustive up to 6 nodes, sampled 7-12; the "
             "input list is assumed to hold distinct events and the comparison function to be symmetric (quantifier of the statement)"),
    "design_ref": "DESIGN.md section 4 C13",
}
