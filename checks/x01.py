"""X01 binder (extension): the file-system side of the library -- is_audio_file / get_audio_files / Dataset.from_directory on
materialised file trees, Recording.from_file, generate_wav_header + get_media_info, the two checksum functions.
Encoder only: the verdict is T_FileTree's / T_WavMeta's."""
import hashlib, io, itertools, os, random, shutil, signal, tempfile
from pathlib import Path

import numpy as np
import soundfile as sf

from soundevent import data
from soundevent.audio.files import get_audio_files, is_audio_file
from soundevent.audio.media_info import (compute_md5_checksum, compute_sha2_checksum, generate_wav_header, get_media_info)
from vt.enc import limbs

PROPERTY = "X01"
TRACE = "T_FileTree"
ENUM = {
    "quick":    [dict(module="MC_FileTree", cfg="MC_FileTree_quick.cfg", workers=8),
                 dict(module="MC_WavMeta", cfg="MC_WavMeta_quick.cfg", workers=2)],
    "thorough": [dict(module="MC_FileTree", cfg="MC_FileTree_thorough.cfg", workers=16),
                 dict(module="MC_FileTree", cfg="MC_FileTree_cov.cfg", workers=4, coverage=True, expect_cases=False),     # every action taken
                 dict(module="MC_FileTree", cfg="MC_FileTree_live.cfg", workers=8, expect_cases=False),     # termination as a liveness property
                 dict(module="MC_WavMeta", cfg="MC_WavMeta_thorough.cfg", workers=4, coverage=True)],
}
POOL = 12
CHUNK = 400
WORK_ENV = "X01_WORKDIR"
_DEFAULT_WORK = Path(__file__).resolve().parent.parent / ".work" / "x01_tmp"
RULE = ("one case per file tree of the TLA+ universe (optional slots: root/sub/sub-deep files over an alphabet of names x content "
        "classes, a directory named *.wav, links to a file / a directory / an ancestor / nowhere, the root given as directory, link, "
        "file or missing path), each materialised once and queried with every flag combination the model allows "
        "(get_audio_files x8, is_audio_file on every path x2, Dataset.from_directory x4); plus one case per Recording.from_file call "
        "(rate x frames x channels x time expansion x hash), per generate_wav_header call (rate x channels x count x depth) and per "
        "checksum file size; plus random larger trees / rates / sizes. non-trivial = a tree holding at least one entry with an "
        "audio-like name, or any (c)/(d) case with at least one frame or byte")
TRUSTED_BASE = ["checks/x01.py (writes the tree with os/soundfile, calls the public functions, ships relative paths, ints, limb "
                "numbers and hex digests; md5 of the bytes it wrote itself)", "libsndfile as the reader of (d)"]
ASSUMPTIONS = ["POSIX file system with symbolic links; CPython 3.12 os.walk / pathlib.glob as transcribed in MC_FileTree",
               "a link to an ancestor is only walked with flag combinations that keep the walk finite",
               "link targets are link-free paths (one hop); file names come from the finite alphabet of FileTree!Lower"]
EXTENSION = {
    "title": "the file-system side: audio file discovery, datasets from directories, recordings from files, WAV headers, checksums",
    "text": ("FileTree.tla models a directory tree as a TLA+ value (files with dotted names and a content class, directories, links to "
             "files / directories / ancestors / nowhere) and states which paths get_audio_files must, may and must not yield for every "
             "(strict, recursive, follow_symlinks), what is_audio_file answers on every path, and which recordings with which metadata and "
             "md5 Dataset.from_directory returns. MC_FileTree.tla is the walk (iterdir branch; os.walk with its explicit stack; "
             "is_audio_file's three tests) as a state machine: TLC proves on every tree x flags of the universe that it yields exactly "
             "Req's set, each path once, that the set lies between the required and the allowed one, and that it terminates (a control "
             "under spec/history shows the walk through an ancestor link with follow_symlinks exceeding every depth bound). WavMeta.tla "
             "states Recording.from_file's time-expansion arithmetic on exact rationals, the 44 header bytes of generate_wav_header field "
             "by field and what libsndfile must read back, and that both checksums equal hashlib over the whole file; MC_WavMeta.tla holds "
             "the layout laws and the chunked read loop (bytes fed = the file, every size around the buffer length). Every tree is "
             "materialised on disk, the real functions are run, and TLC validates the recorded paths, numbers and digests clause by clause."),
}
LIMIT = 400     # a generator that has not stopped after this many paths is cut off (the marker path is then rejected by the spec)


# ----------------------------------------------------------------------------- encoding helpers
def _name(parts):
    return ".".join(parts)


def _path(p):
    return "/".join(_name(n) for n in p) if p else "."


def _exc(ex):
    return "ValueError" if isinstance(ex, ValueError) else type(ex).__name__


def _b(fn, *a, **kw):
    try:
        r = fn(*a, **kw)
    except Exception as ex:
        return "raise:" + type(ex).__name__
    return "true" if r is True else "false" if r is False else "other:" + type(r).__name__


def _wav_bytes(a, salt):
    """a decodable WAV file of the given rate / channels / frames / subtype, as bytes"""
    n, ch = a["fr"], a["ch"]
    rs = np.random.RandomState(salt % (2 ** 31))
    x = (rs.rand(n, ch) - 0.5) * 0.9
    buf = io.BytesIO()
    sf.write(buf, x, a["sr"], subtype=a["st"], format="WAV")
    return buf.getvalue()


def _workdir():
    d = Path(os.environ.get(WORK_ENV, str(_DEFAULT_WORK)))
    d.mkdir(parents=True, exist_ok=True)
    return d


def prepare(work, tier, seed):
    d = Path(work) / "fs"
    d.mkdir(parents=True, exist_ok=True)
    os.environ[WORK_ENV] = str(d)          # inherited by the worker processes


def _rel(p, arg):
    try:
        return Path(p).relative_to(arg).as_posix()
    except Exception:
        return "OUTSIDE:" + str(p)


# ----------------------------------------------------------------------------- (a), (b): trees
def _materialise(tree, base):
    """write the tree; returns (path to hand to the library, [[real relative path, md5 of the bytes written]])"""
    real = base / ("real" if tree["root"] == "link" else "tree")
    files = []
    if tree["root"] == "file":
        arg = base / "afile.wav"
        arg.write_bytes(_wav_bytes({"sr": 8000, "ch": 1, "fr": 4, "st": "PCM_16"}, 1))
        return arg, files
    if tree["root"] == "missing":
        return base / "absent", files
    real.mkdir()
    for k, e in enumerate(tree["ents"]):
        p = real / _path(e["d"] + [e["n"]])
        if e["k"] == "dir":
            p.mkdir()
        elif e["k"] == "file":
            if e["c"] == "audio":
                b = _wav_bytes(e["a"], 1000 + 37 * k + len(p.name))
            elif e["c"] == "junk":
                b = ("this is not audio: %s\n" % p.name).encode() * 3
            else:
                b = b""
            p.write_bytes(b)
            files.append({"p": _path(e["d"] + [e["n"]]), "md5": hashlib.md5(b).hexdigest()})
        else:
            target = real / _path(e["t"]) if e["t"] else real
            os.symlink(os.path.relpath(target, start=p.parent), p)
    if tree["root"] == "link":
        arg = base / "lnk"
        os.symlink("real", arg)
    else:
        arg = real
    return arg, files


class _NotStopped(BaseException):
    pass


class _deadline:
    """a call that has not returned after SECONDS is cut off (SIGALRM; binders run in the main thread of their process):
    a walk through a cycle of links examines exponentially many directories before the kernel's link limit stops it"""
    SECONDS = 20

    def _fire(self, *a):
        raise _NotStopped()

    def __enter__(self):
        self.old = signal.signal(signal.SIGALRM, self._fire)
        signal.setitimer(signal.ITIMER_REAL, self.SECONDS)

    def __exit__(self, *a):
        signal.setitimer(signal.ITIMER_REAL, 0)
        signal.signal(signal.SIGALRM, self.old)
        return False


def _walk(arg, f, i):
    kw = {}
    if not (f["strict"] is False and f["rec"] is True and f["follow"] is False):     # the defaults are exercised as defaults
        kw = dict(strict=f["strict"], recursive=f["rec"], follow_symlinks=f["follow"])
    a = str(arg) if i % 2 else arg
    got = []
    try:
        with _deadline():
            for p in itertools.islice(get_audio_files(a, **kw), LIMIT + 1):
                got.append(p)
    except _NotStopped:
        got = got[:LIMIT] + [None] * (LIMIT + 1 - len(got[:LIMIT]))
    except Exception as ex:
        return {"raised": _exc(ex), "order": [], "sorted": []}
    order = [_rel(p, arg) for p in got[:LIMIT] if p is not None]
    if len(got) > LIMIT:
        order.append("NOT-STOPPED-AFTER-%d-PATHS-OR-%d-SECONDS" % (LIMIT, _deadline.SECONDS))
    return {"raised": "", "order": order, "sorted": sorted(order)}


def _dataset(arg, c):
    try:
        with _deadline():
            if c["rec"] and c["hash"]:
                d = data.Dataset.from_directory(arg, name="the name")                       # both at their defaults
            else:
                d = data.Dataset.from_directory(arg, name="the name", recursive=c["rec"], compute_hash=c["hash"])
    except _NotStopped:
        return {"raised": "NotStopped", "name": "", "descnone": True, "recs": []}
    except Exception as ex:
        return {"raised": _exc(ex), "name": "", "descnone": True, "recs": []}
    recs = [{"p": _rel(r.path, arg), "sr": int(r.samplerate), "ch": int(r.channels), "dur": limbs(r.duration),
             "te": limbs(r.time_expansion), "hash": r.hash if isinstance(r.hash, str) else "", "hashnone": r.hash is None}
            for r in d.recordings[:LIMIT]]
    return {"raised": "", "name": d.name, "descnone": d.description is None, "recs": recs}


def _tree(case):
    base = Path(tempfile.mkdtemp(prefix="t_", dir=str(_workdir())))
    try:
        arg, files = _materialise(case["tree"], base)
        walk = [_walk(arg, f, i) for i, f in enumerate(case["calls"])]
        isaudio = [{"ns": _b(is_audio_file, arg / _path(p)), "st": _b(is_audio_file, str(arg / _path(p)), strict=True)}
                   for p in case["probes"]]
        ds = [_dataset(arg, c) for c in case["ds"]]
        return {"files": files, "walk": walk, "isaudio": isaudio, "ds": ds}
    finally:
        shutil.rmtree(base, ignore_errors=True)


# ----------------------------------------------------------------------------- (c) Recording.from_file
def _recfile(case):
    base = Path(tempfile.mkdtemp(prefix="r_", dir=str(_workdir())))
    try:
        b = _wav_bytes(case, case["sr"] + 31 * case["fr"])
        path = base / "rec.wav"
        path.write_bytes(b)
        given = str(path) if case["fr"] % 2 else path
        tp, tq = case["te"]
        te = float(tp) / float(tq) if tq != 1 else tp            # integers are passed as integers (the default is the int 1)
        out = {"raised": "", "sr": 0, "ch": 0, "dur": limbs(0.0), "te": limbs(0.0), "hash": "", "hashnone": True,
               "md5": hashlib.md5(b).hexdigest(), "path": "", "given": str(path), "durxsr": limbs(0.0), "srint": True}
        try:
            if case["omit"]:
                r = data.Recording.from_file(given)
            else:
                r = data.Recording.from_file(given, time_expansion=te, compute_hash=case["hash"])
        except Exception as ex:
            out["raised"] = _exc(ex)
            return out
        out.update(sr=int(r.samplerate), ch=int(r.channels), dur=limbs(r.duration), te=limbs(r.time_expansion),
                   hash=r.hash if isinstance(r.hash, str) else "", hashnone=r.hash is None, path=str(r.path),
                   durxsr=limbs(r.duration * r.samplerate),                 # recorded, no clause (see RecFramesIdentity for the judged form)
                   srint=isinstance(r.samplerate, int))
        return out
    finally:
        shutil.rmtree(base, ignore_errors=True)


# ----------------------------------------------------------------------------- (d) header, read back, checksums
_NOINFO = {"raised": "", "sr": 0, "ch": 0, "n": 0, "dur": limbs(0.0), "fmt": "", "sub": ""}


def _header(case):
    base = Path(tempfile.mkdtemp(prefix="h_", dir=str(_workdir())))
    try:
        try:
            if case["omit"]:
                hdr = generate_wav_header(case["sr"], case["ch"], case["n"])
            else:
                hdr = generate_wav_header(samplerate=case["sr"], channels=case["ch"], samples=case["n"], bit_depth=case["bits"])
        except Exception as ex:
            return {"raised": _exc(ex), "hdr": [], "info": dict(_NOINFO)}
        if not isinstance(hdr, (bytes, bytearray)):
            return {"raised": "other:" + type(hdr).__name__, "hdr": [], "info": dict(_NOINFO)}
        nbytes = case["n"] * case["ch"] * (case["bits"] // 8)            # that many bytes of sample data follow the header
        body = bytes((7 * i + 3) % 256 for i in range(nbytes))
        path = base / "made.wav"
        path.write_bytes(bytes(hdr) + body)
        info = dict(_NOINFO)
        try:
            m = get_media_info(path)
            info.update(sr=int(m.samplerate_hz), ch=int(m.channels), n=int(m.samples), dur=limbs(m.duration_s), fmt=str(m.format), sub=str(m.subtype))
        except Exception as ex:
            info["raised"] = _exc(ex)
        return {"raised": "", "hdr": list(hdr), "info": info}
    finally:
        shutil.rmtree(base, ignore_errors=True)


def _checksum(case):
    base = Path(tempfile.mkdtemp(prefix="c_", dir=str(_workdir())))
    try:
        b = random.Random(case["size"]).randbytes(case["size"])
        path = base / "blob.bin"
        path.write_bytes(b)
        out = {"md5": _s(compute_md5_checksum, path), "md5ref": hashlib.md5(b).hexdigest(),
               "sha": _s(compute_sha2_checksum, str(path)), "sharef": hashlib.sha256(b).hexdigest()}
        return out
    finally:
        shutil.rmtree(base, ignore_errors=True)


def _s(fn, *a):
    try:
        r = fn(*a)
    except Exception as ex:
        return "raise:" + type(ex).__name__
    return r if isinstance(r, str) else "other:" + type(r).__name__


class _quiet:
    """libmpg123 (inside libsndfile) writes 'Note: Illegal Audio-MPEG-Header ...' to fd 2 for every junk file it is shown"""
    def __enter__(self):
        try:
            self.saved = os.dup(2)
            self.null = os.open(os.devnull, os.O_WRONLY)
            os.dup2(self.null, 2)
        except OSError:
            self.saved = None
    def __exit__(self, *a):
        if self.saved is not None:
            os.dup2(self.saved, 2)
            os.close(self.saved)
            os.close(self.null)


def execute(case):
    k = case["kind"]
    if k == "tree":
        with _quiet():
            return _tree(case)
    if k == "recfile":
        return _recfile(case)
    if k == "header":
        return _header(case)
    if k == "checksum":
        return _checksum(case)
    raise ValueError(k)


def trace_module(o):
    return "T_FileTree" if o["in"]["kind"] == "tree" else "T_WavMeta"


# ----------------------------------------------------------------------------- random cases on larger universes
_EXTS = ["wav", "WAV", "Wav", "wAV", "flac", "FLAC", "mp3", "MP3", "txt", "TXT", "ogg", "aiff", "json", "w64", "csv"]
_STEMS = ["a", "b", "rec 01", "x-y", "", "20230501_120000", "ü"]
_NOA = {"sr": 0, "ch": 0, "fr": 0, "st": ""}
_SUBTYPES = ["PCM_16", "PCM_24", "PCM_32", "PCM_U8", "FLOAT", "DOUBLE"]


def _rand_name(rng):
    stem = rng.choice(_STEMS)
    k = rng.choice([0, 1, 1, 1, 2])
    parts = [stem] + [rng.choice(_EXTS) for _ in range(k)]
    if parts == [""]:
        parts = ["plain"]
    return parts


def _rand_tree(rng):
    dirs = [[]]
    ents = []
    names = {(): set()}

    def add(d, n, **kw):
        key = tuple(map(tuple, d))
        if tuple(n) in names.setdefault(key, set()):
            return False
        names[key].add(tuple(n))
        e = {"d": d, "n": n, "k": "file", "c": "", "a": dict(_NOA), "t": []}
        e.update(kw)
        ents.append(e)
        return True

    # directories: depth at most 2 (FileTree!K), some named like audio files
    for n1 in rng.sample([["sub"], ["other dir"], ["pack", "wav"], ["d", "FLAC"]], rng.randrange(0, 4)):
        if add([], n1, k="dir"):
            dirs.append([n1])
            if rng.random() < 0.5:
                n2 = rng.choice([["deep"], ["deep", "wav"]])
                if add([n1], n2, k="dir"):
                    dirs.append([n1, n2])
    realfiles = []
    for d in dirs:
        for _ in range(rng.randrange(0, 4)):
            n = _rand_name(rng)
            c = rng.choice(["audio", "audio", "junk", "empty"])
            a = dict(_NOA)
            if c == "audio":
                a = {"sr": rng.choice([8000, 11025, 22050, 44100, 48000, 96000, 250000]), "ch": rng.randrange(1, 4),
                     "fr": rng.choice([0, 1, 3, 100, 441, 1000]), "st": rng.choice(_SUBTYPES)}
            if add(d, n, k="file", c=c, a=a):
                realfiles.append(d + [n])
    ancestor = False
    for _ in range(rng.randrange(0, 3)):
        d = rng.choice(dirs)
        kind = rng.choice(["file", "dir", "up", "broken"])
        if kind == "file" and realfiles:
            add(d, rng.choice([["ln", "wav"], ["ln", "txt"], ["ln"], ["ln", "FLAC"]]), k="link", t=rng.choice(realfiles))
        elif kind == "dir" and len(dirs) > 1:
            t = rng.choice(dirs[1:])
            if t[:len(d)] != d or True:
                if add(d, rng.choice([["dl"], ["dl", "wav"]]), k="link", t=t):
                    ancestor = ancestor or d[:len(t)] == t
        elif kind == "up" and d:
            t = d[:rng.randrange(0, len(d))]
            if add(d, ["up"], k="link", t=t):
                ancestor = True
        elif kind == "broken":
            add(d, rng.choice([["gone", "wav"], ["gone"]]), k="link", t=[["nowhere"]])
    # a link into a deeper directory may reach a link back: keep resolution one hop and the walk finite
    tree = {"root": "dir", "ents": ents}
    calls = [{"strict": s, "rec": r, "follow": f} for s in (False, True) for r in (False, True) for f in (False, True)
             if not (ancestor and r and f)]
    probes = [e["d"] + [e["n"]] for e in ents] + [[["nothere", "wav"]]]
    for e in ents:                       # paths through directory links
        if e["k"] == "link" and e["t"] in dirs:
            for x in ents:
                if x["d"] == e["t"]:
                    probes.append(e["d"] + [e["n"], x["n"]])
    ds = [{"rec": r, "hash": h} for r in (False, True) for h in (False, True)]
    return {"kind": "tree", "tree": tree, "calls": calls, "probes": probes, "ds": ds}


def _follow_depth_ok(case):
    """the model looks K = 3 directory levels below the root: keep trees whose followed walk is not deeper"""
    ents = case["tree"]["ents"]
    kids = {}
    for e in ents:
        kids.setdefault(tuple(map(tuple, e["d"])), []).append(e)

    def depth(real, seen):
        m = 0
        for e in kids.get(real, []):
            if e["k"] == "dir":
                m = max(m, 1 + depth(real + (tuple(e["n"]),), seen))
            elif e["k"] == "link":
                t = tuple(map(tuple, e["t"]))
                if any(x["k"] == "dir" and tuple(map(tuple, x["d"] + [x["n"]])) == t for x in ents) or t == ():
                    if len(seen) > 4:
                        return 9
                    m = max(m, 1 + depth(t, seen + (t,)))
        return m
    anc = len(case["calls"]) < 8
    return anc or depth((), ()) <= 2


def random_cases(rng, tier):
    n = 150 if tier == "quick" else 2500
    made = 0
    while made < n:
        c = _rand_tree(rng)
        if _follow_depth_ok(c):
            made += 1
            yield c
    m = 150 if tier == "quick" else 2000
    for _ in range(m):
        sr = rng.choice([rng.randrange(1000, 32767), 100 * rng.randrange(10, 4000)])
        tp, tq = rng.choice([(1, 1), (10, 1), (1, 2), (3, 2), (1, 10), (2, 1), (1, 4), (5, 1), (8, 1), (1, 8), (5, 2), (20, 1)])
        ch = rng.randrange(1, 4)
        yield {"kind": "recfile", "sr": sr, "ch": ch, "fr": rng.randrange(0, 3000), "st": rng.choice(_SUBTYPES), "te": [tp, tq],
               "hash": rng.random() < 0.5, "omit": False}
    for _ in range(m):
        sr = rng.choice([rng.randrange(1000, 32767), 100 * rng.randrange(10, 4000)])
        yield {"kind": "header", "sr": sr, "ch": rng.randrange(1, 5), "n": rng.randrange(0, 2000), "bits": rng.choice([8, 16, 24, 32]), "omit": False}
    for _ in range(10 if tier == "quick" else 60):
        yield {"kind": "checksum", "size": rng.choice([rng.randrange(0, 300000), 65536 * rng.randrange(1, 5) + rng.choice([-1, 0, 1])])}


def nontrivial(o):
    c = o["in"]
    if c["kind"] == "tree":
        return c["tree"]["root"] in ("dir", "link") and any(
            len(e["n"]) >= 2 and e["n"][-1].lower() in ("wav", "flac", "mp3", "ogg", "aiff", "w64") for e in c["tree"]["ents"])
    if c["kind"] == "recfile":
        return c["fr"] > 0
    if c["kind"] == "header":
        return c["n"] > 0
    return c["size"] > 0
