"""Thin wrapper around TLC: run a model, parse CASE / REJECT lines and the summary."""
from __future__ import annotations
import json, os, re, shutil, subprocess, time
from pathlib import Path

VERIF = Path(__file__).resolve().parent.parent
SPEC = VERIF / "spec"
JAR = "/opt/veriftools/tla/tla2tools.jar"
CM = "/opt/veriftools/tla/CommunityModules-deps.jar"

class TLCError(RuntimeError):
    pass

def _classpath():
    d = Path("/opt/veriftools/tla")
    jars = sorted(str(p) for p in d.glob("*.jar"))
    return ":".join(jars)

def run(module: str, cfg: str, workdir: Path, *, workers: int = 4, env: dict | None = None,
        simulate: str | None = None, depth: int | None = None, seed: int | None = None,
        timeout: int = 3600, coverage: bool = False, heap: str = "4g", deadlock=False,
        extra: list[str] | None = None) -> dict:
    """Run TLC on spec/<module>.tla with spec/<cfg>.  Returns dict(stdout, states, distinct, depth, wall, ok, error)."""
    workdir.mkdir(parents=True, exist_ok=True)
    meta = workdir / ("meta_" + re.sub(r"\W", "_", cfg) + "_" + str(os.getpid()) + "_" + str(time.time_ns() % 10**9))
    cmd = ["java", "-XX:+UseParallelGC", "-Xss64m", f"-Xmx{heap}", "-cp", _classpath(), "tlc2.TLC",
           "-workers", str(workers), "-metadir", str(meta), "-noGenerateSpecTE",
           "-config", str(SPEC / cfg)]
    if simulate:
        cmd += ["-simulate", simulate]
    if depth:
        cmd += ["-depth", str(depth)]
    if seed is not None:
        cmd += ["-seed", str(seed)]
    if coverage:
        cmd += ["-coverage", "1"]
    if extra:
        cmd += extra
    cmd += [str(SPEC / (module + ".tla"))]
    e = dict(os.environ)
    e.pop("JAVA_TOOL_OPTIONS", None)
    if env:
        e.update({k: str(v) for k, v in env.items()})
    t0 = time.time()
    try:
        p = subprocess.run(cmd, cwd=str(SPEC), env=e, capture_output=True, text=True, timeout=timeout)
        out = p.stdout + p.stderr
        rc = p.returncode
    except subprocess.TimeoutExpired as ex:
        out = (ex.stdout or b"").decode() if isinstance(ex.stdout, bytes) else (ex.stdout or "")
        rc = -9
    wall = time.time() - t0
    shutil.rmtree(meta, ignore_errors=True)
    res = {"stdout": out, "rc": rc, "wall": wall, "cmd": " ".join(cmd)}
    m = re.search(r"(\d+) states generated, (\d+) distinct states found", out)
    res["states_generated"] = int(m.group(1)) if m else 0
    res["distinct"] = int(m.group(2)) if m else 0
    m = re.search(r"depth of the complete state graph search is (\d+)", out)
    res["depth"] = int(m.group(1)) if m else 0
    m = re.search(r"(\d+) distinct states? generated at", out)
    res["initial"] = int(m.group(1)) if m else 0
    res["ok"] = (rc == 0) and ("Error:" not in out)
    if not res["ok"]:
        # keep the first error block
        i = out.find("Error:")
        res["error"] = out[i:i + 3000] if i >= 0 else out[-3000:]
    return res

def parse_tagged(stdout: str, tag: str) -> list:
    """Lines of the form <<"TAG", "<json string>">> printed by PrintT(<<"TAG", ToJson(x)>>)."""
    pre = f'<<"{tag}", '
    out = []
    for line in stdout.splitlines():
        if line.startswith(pre) and line.endswith(">>"):
            inner = line[len(pre):-2]
            try:
                out.append(json.loads(json.loads(inner)))
            except Exception as ex:  # malformed line = machinery failure
                raise TLCError(f"cannot parse {tag} line: {line[:200]}") from ex
    return out

def coverage_zero_actions(stdout: str) -> list[str]:
    """Action names with zero distinct states in a -coverage run."""
    bad = []
    # TLC prints interim coverage reports on long runs; only the final one is complete
    k = stdout.rfind("The coverage statistics at")
    if k >= 0:
        stdout = stdout[k:]
    for m in re.finditer(r"<(\w+) line \d+, col \d+ to line \d+, col \d+ of module (\w+)>: (\d+):(\d+)", stdout):
        if int(m.group(4)) == 0 and m.group(1) != "Init":
            bad.append(m.group(1))
    return sorted(set(bad))
