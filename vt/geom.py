"""Build real soundevent geometries from lattice cases and read coordinates back as ticks."""
from __future__ import annotations
from fractions import Fraction
from soundevent import data

TIME_UNITS = [1.0, 0.5, 0.125]
FREQ_UNIT = 1000.0          # FMAX = 5000 ticks

def _scale_pts(pts, tu, fu):
    return [[p[0] * tu, p[1] * fu] for p in pts]

def build(g: dict, tu: float = 1.0, fu: float = FREQ_UNIT):
    """lattice geometry record -> soundevent geometry object."""
    k, c = g["type"], g["coordinates"]
    if k == "TimeStamp":
        return data.TimeStamp(coordinates=c * tu)
    if k == "TimeInterval":
        return data.TimeInterval(coordinates=[c[0] * tu, c[1] * tu])
    if k == "Point":
        return data.Point(coordinates=[c[0] * tu, c[1] * fu])
    if k == "BoundingBox":
        return data.BoundingBox(coordinates=[c[0] * tu, c[1] * fu, c[2] * tu, c[3] * fu])
    if k == "LineString":
        return data.LineString(coordinates=_scale_pts(c, tu, fu))
    if k == "MultiPoint":
        return data.MultiPoint(coordinates=_scale_pts(c, tu, fu))
    if k == "Polygon":
        return data.Polygon(coordinates=[_scale_pts(r, tu, fu) for r in c])
    if k == "MultiLineString":
        return data.MultiLineString(coordinates=[_scale_pts(r, tu, fu) for r in c])
    if k == "MultiPolygon":
        return data.MultiPolygon(coordinates=[[_scale_pts(r, tu, fu) for r in p] for p in c])
    raise ValueError(k)

def outcome(fn, *a, **kw) -> str:
    """Call and encode the outcome of a boolean function: 'true' | 'false' | 'raise:<Exc>' | 'other:<repr>'."""
    try:
        r = fn(*a, **kw)
    except Exception as ex:  # observation, judged by the spec
        return "raise:" + type(ex).__name__
    if r is True or r is False:
        return "true" if r else "false"
    try:
        import numpy as np
        if isinstance(r, np.bool_):
            return "true" if bool(r) else "false"
    except Exception:
        pass
    return "other:" + repr(r)[:40]
