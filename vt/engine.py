"""Enumerate -> Execute -> Validate driver shared by every property check.

A check is a python module ``checks/<id>.py`` (see ENGINE.md) that names the TLA+
modules and supplies the *binder* (``execute``): a dumb encoder that calls the real
code for one case and returns what it observed.  The verdict is TLC's: observations
are judged by ``spec/T_<Module>.tla`` and reported as REJECT lines.
"""
from __future__ import annotations
import hashlib, importlib, json, os, random, shutil, sys, time, traceback
from concurrent.futures import ProcessPoolExecutor, ThreadPoolExecutor
from pathlib import Path

from . import tlc

VERIF = Path(__file__).resolve().parent.parent
WORK = VERIF / ".work"
EVID = VERIF / "evidence"
REPLAYS = VERIF / "replays"
FINDINGS = VERIF / "known_findings.json"


class Machinery(Exception):
    """The checking machinery itself failed (exit 2); never a verdict."""


# ----------------------------------------------------------------------------- helpers
def _no_floats(x, path="obs"):
    if isinstance(x, bool) or isinstance(x, str):
        return
    if isinstance(x, int):
        if not (-2**31 < x < 2**31):
            raise Machinery(f"integer out of TLC range at {path}: {x}")
        return
    if x is None or isinstance(x, float):
        raise Machinery(f"float/null in observation at {path}: {x!r} (encode it, see vt/enc.py)")
    if isinstance(x, (list, tuple)):
        for i, v in enumerate(x):
            _no_floats(v, f"{path}[{i}]")
        return
    if isinstance(x, dict):
        for k, v in x.items():
            if not isinstance(k, str):
                raise Machinery(f"non-string key at {path}")
            _no_floats(v, f"{path}.{k}")
        return
    raise Machinery(f"unencodable {type(x).__name__} at {path}")


_CHECK = None


def _exec_one(args):
    """Runs in a worker process: call the binder, never judge."""
    global _CHECK
    modname, case = args
    if _CHECK is None or _CHECK.__name__ != modname:
        _CHECK = importlib.import_module(modname)
    # environment dimension: every fifth case (by its content) runs with the root logger at DEBUG -- no property depends on the
    # logging level, so whatever a debug branch of the library does must leave every observation unchanged
    import logging
    dbg = int(hashlib.sha1(json.dumps(case, sort_keys=True, default=str).encode()).hexdigest()[:6], 16) % 5 == 0
    root = logging.getLogger()
    prev = root.level
    root.setLevel(logging.DEBUG if dbg else logging.WARNING)
    try:
        out = _CHECK.execute(case)
    except Exception as ex:  # the real code (or the encoding of its output) blew up
        if type(ex).__name__ == "Machinery":
            return {"_machinery": str(ex)}
        tb = traceback.format_exc().strip().splitlines()
        out = {"crashed": f"{type(ex).__name__}: {str(ex)[:300]}", "where": tb[-3:] if len(tb) >= 3 else tb}
    finally:
        root.setLevel(prev)
    return out


def load_findings(prop: str):
    if not FINDINGS.exists():
        return []
    data = json.loads(FINDINGS.read_text())
    return [f for f in data.get("findings", []) if f.get("property") == prop]


# ----------------------------------------------------------------------------- main driver
def run_check(prop: str, tier: str = "quick", seed: int = 0, replay: str | None = None,
              keep_work: bool = False, verbose: bool = True) -> int:
    t0 = time.time()
    sys.path.insert(0, str(VERIF))
    modname = f"checks.{prop.lower()}"
    os.environ["VERIF_TIER"] = tier
    chk = importlib.import_module(modname)
    # every invocation works in its own directory (<prop>_<tier>_<pid>) so that two runs of one check -- against /repo and
    # against another checkout (VERIF_SRC), or two seeds side by side -- never touch each other's files; directories left
    # behind by runs that are no longer alive are removed first
    for d in WORK.glob(f"{prop}_{tier}*"):
        tail = d.name[len(f"{prop}_{tier}"):].lstrip("_").replace("src", "")
        alive = False
        if tail.isdigit():
            try:
                os.kill(int(tail), 0); alive = True
            except OSError:
                alive = False
        if not alive:
            shutil.rmtree(d, ignore_errors=True)
    work = WORK / f"{prop}_{tier}_{os.getpid()}"
    work.mkdir(parents=True, exist_ok=True)
    log = (lambda *a: print(*a, flush=True)) if verbose else (lambda *a: None)
    rng = random.Random(seed)
    import soundevent as _se
    log(f"[{prop}] source under test: {os.path.dirname(_se.__file__)}")

    enum_stats = {"states": 0, "transitions": 0, "depth": 0, "cmds": [], "exhaustive": True, "initial": 0}
    cases: list[dict] = []

    if replay:
        rp = json.loads(Path(replay).read_text())
        cases = [dict(rp["case"], _src="replay")]
    else:
        # ---- (1) ENUMERATE: TLC explores the specification and prints one CASE per terminal state
        for spec in chk.ENUM.get(tier, chk.ENUM["quick"]):
            sim = spec.get("simulate")
            if sim and "{seed}" in sim:
                sim = sim.format(seed=seed)
            r = tlc.run(spec["module"], spec["cfg"], work, workers=spec.get("workers", 8),
                        simulate=sim, depth=spec.get("depth"), seed=(seed if sim else None),
                        timeout=spec.get("timeout", 3000), coverage=spec.get("coverage", False),
                        heap=spec.get("heap", "6g"), env=spec.get("env"))
            (work / f"enum_{spec['cfg']}.log").write_text(r["stdout"])
            if not r["ok"] and not (sim and r["rc"] in (0,) ):
                raise Machinery(f"TLC failed on {spec['module']} / {spec['cfg']}:\n{r.get('error', '')}")
            got = tlc.parse_tagged(r["stdout"], "CASE")
            if spec.get("expect_cases", True) and not got:
                raise Machinery(f"no CASE produced by {spec['cfg']}")
            if spec.get("coverage"):
                z = [a for a in tlc.coverage_zero_actions(r["stdout"]) if a not in spec.get("may_be_unused", [])]
                if z:
                    raise Machinery(f"actions never taken in {spec['cfg']}: {z}")
            for c in got:
                c["_src"] = spec["cfg"]
            cases += got
            enum_stats["states"] += r["distinct"]
            enum_stats["transitions"] += max(r["states_generated"] - r["initial"], 0)
            enum_stats["initial"] += r["initial"]
            enum_stats["depth"] = max(enum_stats["depth"], r["depth"])
            enum_stats["cmds"].append(r["cmd"].split("tlc2.TLC", 1)[1].strip())
            if sim:
                enum_stats["exhaustive"] = False
            log(f"[{prop}] enumerate {spec['cfg']}: {len(got)} cases, {r['distinct']} states, {r['wall']:.1f}s")
        # ---- random / recorded inputs on larger universes (code -> spec direction)
        if hasattr(chk, "random_cases"):
            rc = list(chk.random_cases(rng, tier))
            for c in rc:
                c["_src"] = "random"
            cases += rc
            log(f"[{prop}] random cases: {len(rc)}")

    # ---- unbounded laws: TLAPS proof obligations (thorough tier), a failed obligation is a machinery failure
    proof_stats = {"obligations": 0, "discharged": 0, "modules": []}
    if tier == "thorough" and not replay:
        for pm in getattr(chk, "PROOFS", []):
            ob, ok, out = run_tlapm(pm, work)
            log(f"[{prop}] tlapm {pm}: {ok}/{ob} obligations proved")
            if ob == 0 or ok != ob:
                raise Machinery(f"tlapm could not discharge {pm}: {ok}/{ob}\n{out[-1500:]}")
            proof_stats["obligations"] += ob; proof_stats["discharged"] += ok; proof_stats["modules"].append(pm)
    enum_stats["proofs"] = proof_stats

    # ---- (2) EXECUTE: the binder runs the real code; it does not judge
    if hasattr(chk, "prepare"):
        chk.prepare(work, tier, seed)
    t1 = time.time()
    pool = getattr(chk, "POOL", 8)
    jobs = [(modname, c) for c in cases]
    if pool > 1 and len(jobs) > 64:
        with ProcessPoolExecutor(max_workers=pool) as ex:
            outs = list(ex.map(_exec_one, jobs, chunksize=max(1, len(jobs) // (pool * 8))))
    else:
        outs = [_exec_one(j) for j in jobs]
    obs = []
    for i, (c, o) in enumerate(zip(cases, outs), start=1):
        src = c.pop("_src", "?")
        obs.append({"id": i, "src": src, "in": c, "out": o})
    # observations recorded from executions we did not enumerate (hook traces, bundled files)
    if hasattr(chk, "extra_observations") and not replay:
        for o in chk.extra_observations(work, tier, seed):
            o["id"] = len(obs) + 1
            obs.append(o)
    for o in obs:
        if isinstance(o["out"], dict) and "_machinery" in o["out"]:
            raise Machinery(f"binder reported a machinery failure on observation {o['id']}: {o['out']['_machinery']}")
        _no_floats(o, f"obs#{o['id']}")
    log(f"[{prop}] executed {len(obs)} observations in {time.time() - t1:.1f}s")
    if not obs:
        raise Machinery("nothing was observed")

    # ---- (3) VALIDATE: TLC evaluates Accepts clause by clause on every observation
    rejects = validate(chk, obs, work, log)

    # ---- findings, replays, evidence
    findings = load_findings(prop)
    open_f = [f for f in findings if f.get("status") == "open"]
    key_fn = getattr(chk, "finding_key", lambda o, clause: clause)
    known_hits: dict[str, int] = {}
    violations = []
    byid = {o["id"]: o for o in obs}
    drift: dict[str, int] = {}
    advisory = getattr(chk, "advisory", lambda o: False)
    for oid, clauses in rejects:
        o = byid[oid]
        for cl in clauses:
            if advisory(o) and not cl.startswith("Drift/"):
                cl = "Drift/advisory:" + cl
            if cl.startswith("Drift/"):      # the code no longer follows the Impl transcription: reported, never an alarm
                drift[cl] = drift.get(cl, 0) + 1
                continue
            k = key_fn(o, cl)
            hit = next((f for f in open_f if f.get("key") == k), None)
            if hit:
                known_hits[hit["key"]] = known_hits.get(hit["key"], 0) + 1
            else:
                violations.append((o, cl))
    for f in open_f:
        if known_hits.get(f["key"]):
            print(f"KNOWN-FINDING: property={prop} {f['what']} (key {f['key']}, {known_hits[f['key']]} observations)")
    for cl, n in sorted(drift.items()):
        print(f"MODEL-DRIFT property={prop} {cl} on {n} observations (implementation differs from the Impl transcription; not a violation)")
    nviol = len(violations)
    seen = set()
    for o, cl in violations[:200]:
        h = hashlib.sha1(json.dumps([o["in"], cl], sort_keys=True).encode()).hexdigest()[:12]
        if h in seen:
            continue
        seen.add(h)
        d = REPLAYS / prop
        d.mkdir(parents=True, exist_ok=True)
        p = d / f"{h}.json"
        p.write_text(json.dumps({"property": prop, "clause": cl, "case": o["in"], "observed": o["out"],
                                 "src": o["src"], "seed": seed, "tier": tier}, indent=1))
        if len(seen) <= 10:
            print(f"VIOLATION property={prop} replay={p} clause={cl}")
    if nviol > 10:
        print(f"[{prop}] ... {nviol} rejected (observation, clause) pairs in total")

    if not replay and not os.environ.get("VERIF_SRC"):   # evidence only from runs against /repo itself
        write_evidence(chk, prop, tier, seed, obs, enum_stats, nviol, known_hits, time.time() - t0, drift)
    if not keep_work and (nviol == 0 or os.environ.get("VERIF_SRC")):
        shutil.rmtree(work, ignore_errors=True)
    log(f"[{prop}] {tier}: {len(obs)} observations validated by TLC, {nviol} violations, "
        f"{sum(known_hits.values())} known-finding hits, {time.time() - t0:.1f}s")
    return 1 if nviol else 0


def run_tlapm(module_path: str, work: Path):
    """Discharge the proof obligations of spec/<module_path> with tlapm (SMT/Zenon back ends); returns (obligations, proved, output)."""
    import re, subprocess
    src = tlc.SPEC / module_path
    d = work / "proofs"
    d.mkdir(parents=True, exist_ok=True)
    shutil.copy(src, d / src.name)
    try:
        p = subprocess.run(["tlapm", "--cleanfp", "--toolbox", "0", "0", src.name], cwd=str(d), capture_output=True, text=True, timeout=900)
        out = p.stdout + p.stderr
    except Exception as ex:
        return 0, 0, str(ex)
    m = re.search(r"All (\d+) obligations? proved", out)
    if m:
        return int(m.group(1)), int(m.group(1)), out
    m = re.search(r"(\d+)/(\d+) obligations? failed", out)
    if m:
        return int(m.group(2)), int(m.group(2)) - int(m.group(1)), out
    return 0, 0, out


def validate(chk, obs, work: Path, log) -> list[tuple[int, list[str]]]:
    """Batch-validate observations with TLC.  Returns [(obs id, [failing clauses])]."""
    groups: dict[str, list] = {}
    tm_of = getattr(chk, "trace_module", lambda o: chk.TRACE)
    proj = getattr(chk, "project", lambda tm, o: o)
    for o in obs:
        tms = tm_of(o)
        for tm in ([tms] if isinstance(tms, str) else tms):
            groups.setdefault(tm, []).append(proj(tm, o))
    chunk = getattr(chk, "CHUNK", 4000)
    tasks = []
    for tm, lst in groups.items():
        for k in range(0, len(lst), chunk):
            part = lst[k:k + chunk]
            f = work / f"obs_{tm}_{k // chunk}.ndjson"
            with f.open("w") as fh:
                for o in part:
                    fh.write(json.dumps(o, separators=(",", ":")) + "\n")
            tasks.append((tm, f, len(part)))

    def one(t):
        tm, f, n = t
        cfg = getattr(chk, "TRACE_CFG", {}).get(tm, tm + ".cfg")
        r = tlc.run(tm, cfg, work, workers=1, env={"OBS_FILE": str(f)}, heap="4g",
                    timeout=getattr(chk, "VALIDATE_TIMEOUT", 3000))
        return t, r

    t1 = time.time()
    rejects = []
    with ThreadPoolExecutor(max_workers=min(12, max(1, len(tasks)))) as ex:
        for (tm, f, n), r in ex.map(one, tasks):
            if not r["ok"]:
                (work / (f.name + ".tlc.log")).write_text(r["stdout"])
                raise Machinery(f"validator {tm} failed on {f.name} (not a verdict):\n{r.get('error', '')}")
            if tm in getattr(chk, "EVENT_TRACES", ()):
                done = tlc.parse_tagged(r["stdout"], "CONSUMED")
                if not done or done[0]["n"] != n:
                    raise Machinery(f"event-trace validator {tm} did not walk all {n} observations of {f.name}")
            elif r["depth"] != n + 1:
                raise Machinery(f"validator {tm} consumed {r['depth'] - 1} of {n} observations in {f.name}")
            for rj in tlc.parse_tagged(r["stdout"], "REJECT"):
                rejects.append((rj["id"], list(rj["bad"])))
            stats = getattr(chk, "_validate_stats", None)
            if stats is not None:
                stats.append({"module": tm, "observations": n, "states": r["distinct"]})
    log(f"validated {len(obs)} observations in {len(tasks)} TLC runs, {time.time() - t1:.1f}s, {len(rejects)} rejected")
    return rejects


def write_evidence(chk, prop, tier, seed, obs, enum_stats, nviol, known_hits, wall, drift=None):
    nt = getattr(chk, "nontrivial", lambda o: True)
    distinct = set()
    for o in obs:
        try:
            if nt(o):
                distinct.add(hashlib.sha1(json.dumps(o["in"], sort_keys=True).encode()).hexdigest())
        except Exception:
            pass
    rng = random.Random(seed)
    picks = [obs[0], obs[-1]] + rng.sample(obs, min(3, len(obs)))
    samples = [{"id": o["id"], "src": o["src"], "in": o["in"], "out": o["out"]} for o in picks]
    by_src: dict[str, int] = {}
    for o in obs:
        by_src[o["src"]] = by_src.get(o["src"], 0) + 1
    cov = {
        "states": enum_stats["states"], "transitions": enum_stats["transitions"],
        "depth": enum_stats["depth"],
        "traces_validated_against_impl": len(obs),
        "evaluations": len(obs),
        "distinct_nontrivial": len(distinct),
        "rule": getattr(chk, "RULE", "one case per terminal state of the TLA+ enumeration; distinct by encoded input"),
        "samples": json.loads(json.dumps(samples)[:200000]) if len(json.dumps(samples)) < 200000 else samples[:1],
        "exhaustive": bool(enum_stats["exhaustive"]),
        "observations_by_source": by_src,
        "checker_cmd": "; ".join(enum_stats["cmds"]) + f" ; then spec/{getattr(chk, 'TRACE', '?')}.tla over the recorded observations",
        "trusted_base": getattr(chk, "TRUSTED_BASE", []) + ["TLC 1.8 (tla2tools.jar)", "vt/engine.py, vt/enc.py (encoders, no verdicts)"],
        "known_finding_hits": known_hits,
        "model_drift": drift or {},
    }
    pr = enum_stats.get("proofs") or {}
    if pr.get("obligations"):
        cov["obligations"] = pr["obligations"]; cov["discharged"] = pr["discharged"]; cov["proof_modules"] = pr["modules"]
    if hasattr(chk, "evidence_extra"):
        cov.update(chk.evidence_extra())
    ev = {"property_id": prop, "tier": tier, "seed": int(seed), "level": "model_checking",
          "coverage": cov, "assumptions": getattr(chk, "ASSUMPTIONS", []),
          "wall_s": round(wall, 2), "violations": int(nviol)}
    # extension checks (ids X..: behaviour beyond the twenty listed properties, DESIGN 7) keep their evidence apart
    evdir = VERIF / "evidence_extra" if prop.startswith("X") else EVID
    evdir.mkdir(exist_ok=True)
    (evdir / f"{prop}.json").write_text(json.dumps(ev, indent=1))


def main(argv=None):
    import argparse
    ap = argparse.ArgumentParser(prog="vcheck")
    ap.add_argument("prop")
    ap.add_argument("--tier", default=os.environ.get("VERIF_TIER", "quick"), choices=["quick", "thorough"])
    ap.add_argument("--seed", type=int, default=int(os.environ.get("VERIF_SEED", "0") or 0))
    ap.add_argument("--replay")
    ap.add_argument("--keep", action="store_true")
    a = ap.parse_args(argv)
    try:
        rc = run_check(a.prop.upper(), a.tier, a.seed, a.replay, a.keep)
    except Machinery as ex:
        print(f"MACHINERY-FAILURE property={a.prop.upper()}: {ex}", flush=True)
        rc = 2
    except BaseException as ex:          # never let an internal error look like a verdict (an uncaught exception exits 1)
        if isinstance(ex, SystemExit):
            raise
        import traceback
        traceback.print_exc()
        print(f"MACHINERY-FAILURE property={a.prop.upper()}: internal error {type(ex).__name__}: {ex}", flush=True)
        rc = 2
    sys.exit(rc)
