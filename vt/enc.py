"""Encoders: python values -> the integer/string/array data model TLC's Json module can read.

No verdicts here.  Floats never cross to TLC as floats:
  ticks(x, unit)  exact lattice coordinate (raises if x is not an exact multiple of unit)
  limbs(x)        [sign, int, f1, f2, f3, f4, exact]  16-bit fraction limbs, exact for |x| < 2^31 with
                  at most 64 fraction bits; 'exact' = 1 when no bits were dropped
  fhex(x)         float.hex() string, for exact equality between two observed doubles
  opt(x)          [] for None else [x]
"""
from __future__ import annotations
from fractions import Fraction
import math

def opt(x, f=lambda v: v):
    return [] if x is None else [f(x)]

def ticks(x, unit=1.0) -> int:
    q = Fraction(x) / Fraction(unit)
    if q.denominator != 1:
        raise ValueError(f"{x!r} is not on the lattice of unit {unit!r}")
    return int(q)

def ticks_or_none(x, unit=1.0):
    q = Fraction(x) / Fraction(unit)
    return int(q) if q.denominator == 1 and abs(q) < 2**31 else None

def limbs(x) -> list[int]:
    """[sign, int, f1, f2, f3, f4, exact]; special: non-finite -> [9, code, 0,0,0,0,0] (code 1=+inf 2=-inf 3=nan)."""
    x = float(x)
    if math.isnan(x):
        return [9, 3, 0, 0, 0, 0, 0]
    if math.isinf(x):
        return [9, 1 if x > 0 else 2, 0, 0, 0, 0, 0]
    s = -1 if (x < 0 or (x == 0 and math.copysign(1, x) < 0 and False)) else (0 if x == 0 else 1)
    q = abs(Fraction(x))
    i = int(q)
    if i >= 2**31 - 1:
        return [9, 4 if x > 0 else 5, 0, 0, 0, 0, 0]  # too large: 4=+big 5=-big
    r = q - i
    fs = []
    for _ in range(4):
        r *= 65536
        f = int(r)
        fs.append(f)
        r -= f
    return [s, i] + fs + [1 if r == 0 else 0]

def fhex(x) -> str:
    return float(x).hex()

def rat(x, maxden=10**6):
    """Exact small rational [num, den] of a double, or [] if it has none with den <= maxden."""
    q = Fraction(x)
    if q.denominator <= maxden and abs(q.numerator) < 2**31:
        return [q.numerator, q.denominator]
    return []
